import RzilVerif.Lemmas.LayoutPerm
/-!
# The layout relation modulo `DUP` (used by C16)

`denoteIL b = ((returned term).subst (buildEnvIL b.items [])).eraseDup`.  Erasing `DUP(..)` at the end makes the
denotation insensitive to WHERE the `DUP`s stand in the declarations: erasing `DUP` in every right-hand side and in the
returned term first gives the same denotation (`denoteIL_eraseDupItems`, Props/C16.lean).
-/
namespace Rzil

/-! ### Equations of `Term.eraseDup` -/

theorem Term.eraseDup_dup (t : Term) : (Term.app "DUP" [t]).eraseDup = t.eraseDup := by
  simp only [Term.eraseDup]

theorem Term.eraseDup_app_of_not {f : String} {args : List Term} (h : ∀ t, f = "DUP" → args = [t] → False) :
    (Term.app f args).eraseDup = .app f (eraseDupList args) := by
  rw [Term.eraseDup]
  exact h

theorem eraseDupList_length : ∀ ts : List Term, (eraseDupList ts).length = ts.length
  | [] => by simp only [eraseDupList]
  | t :: ts => by simp only [eraseDupList, List.length_cons, eraseDupList_length ts]

theorem substList_length (e : Env) : ∀ ts : List Term, (substList e ts).length = ts.length
  | [] => by simp only [substList]
  | t :: ts => by simp only [substList, List.length_cons, substList_length e ts]

/-- `.app f args` is (syntactically) a `DUP` node. -/
def isDupApp (f : String) (args : List Term) : Bool := f == "DUP" && args.length == 1

theorem Term.eraseDup_app_of_isDupApp_false {f : String} {args : List Term} (h : isDupApp f args = false) :
    (Term.app f args).eraseDup = .app f (eraseDupList args) := by
  apply Term.eraseDup_app_of_not
  intro t hf ha
  subst hf; subst ha
  simp [isDupApp] at h

theorem isDupApp_true {f : String} {args : List Term} (h : isDupApp f args = true) : ∃ t, f = "DUP" ∧ args = [t] := by
  simp only [isDupApp, Bool.and_eq_true, beq_iff_eq] at h
  obtain ⟨hf, hl⟩ := h
  match args, hl with
  | [t], _ => exact ⟨t, hf, rfl⟩

/-! ### `eraseDup` is idempotent and does not change which identifiers occur -/

mutual
theorem Term.eraseDup_idem : ∀ t : Term, t.eraseDup.eraseDup = t.eraseDup
  | .id x => by simp only [Term.eraseDup]
  | .num _ => by simp only [Term.eraseDup]
  | .flt _ => by simp only [Term.eraseDup]
  | .chr _ => by simp only [Term.eraseDup]
  | .str _ => by simp only [Term.eraseDup]
  | .addr t => by simp only [Term.eraseDup, Term.eraseDup_idem t]
  | .ccast ty t => by simp only [Term.eraseDup, Term.eraseDup_idem t]
  | .arrow t f => by simp only [Term.eraseDup, Term.eraseDup_idem t]
  | .app f args => by
      cases h : isDupApp f args with
      | true =>
        obtain ⟨t, hf, ha⟩ := isDupApp_true h
        subst hf; subst ha
        rw [Term.eraseDup_dup]
        exact Term.eraseDup_idem t
      | false =>
        have h' : isDupApp f (eraseDupList args) = false := by
          simpa [isDupApp, eraseDupList_length] using h
        rw [Term.eraseDup_app_of_isDupApp_false h, Term.eraseDup_app_of_isDupApp_false h', eraseDupList_idem args]
theorem eraseDupList_idem : ∀ ts : List Term, eraseDupList (eraseDupList ts) = eraseDupList ts
  | [] => by simp only [eraseDupList]
  | t :: ts => by simp only [eraseDupList, Term.eraseDup_idem t, eraseDupList_idem ts]
end

mutual
theorem Term.mentions_eraseDup (x : String) : ∀ t : Term, t.eraseDup.mentions x = t.mentions x
  | .id _ => by simp only [Term.eraseDup]
  | .num _ => by simp only [Term.eraseDup]
  | .flt _ => by simp only [Term.eraseDup]
  | .chr _ => by simp only [Term.eraseDup]
  | .str _ => by simp only [Term.eraseDup]
  | .addr t => by simp only [Term.eraseDup, Term.mentions, Term.mentions_eraseDup x t]
  | .ccast ty t => by simp only [Term.eraseDup, Term.mentions, Term.mentions_eraseDup x t]
  | .arrow t f => by simp only [Term.eraseDup, Term.mentions, Term.mentions_eraseDup x t]
  | .app f args => by
      cases h : isDupApp f args with
      | true =>
        obtain ⟨t, hf, ha⟩ := isDupApp_true h
        subst hf; subst ha
        rw [Term.eraseDup_dup, Term.mentions_eraseDup x t]
        simp only [Term.mentions, mentionsList, Bool.or_false]
      | false =>
        rw [Term.eraseDup_app_of_isDupApp_false h]
        simp only [Term.mentions, mentionsList_eraseDup x args]
theorem mentionsList_eraseDup (x : String) : ∀ ts : List Term, mentionsList x (eraseDupList ts) = mentionsList x ts
  | [] => by simp only [eraseDupList]
  | t :: ts => by simp only [eraseDupList, mentionsList, Term.mentions_eraseDup x t, mentionsList_eraseDup x ts]
end

/-! ### Erasing `DUP` commutes with substitution (up to a final erasure) -/

/-- Two environments agree on every look-up up to `DUP`. -/
def EnvDupEq (e1 e2 : Env) : Prop := ∀ x, (e1.lookup x).map Term.eraseDup = (e2.lookup x).map Term.eraseDup

theorem EnvDupEq.refl (e : Env) : EnvDupEq e e := fun _ => rfl

theorem EnvDupEq.cons {e1 e2 : Env} (h : EnvDupEq e1 e2) (n : String) {v1 v2 : Term}
    (hv : v1.eraseDup = v2.eraseDup) : EnvDupEq ((n, v1) :: e1) ((n, v2) :: e2) := by
  intro x
  simp only [List.lookup_cons]
  split
  · simp only [Option.map_some, hv]
  · exact h x

mutual
/-- Substituting and then erasing `DUP` = erasing `DUP` in the term, substituting with an environment that agrees up
    to `DUP`, and erasing `DUP` again. -/
theorem Term.eraseDup_subst {e1 e2 : Env} (h : EnvDupEq e1 e2) :
    ∀ t : Term, (t.subst e1).eraseDup = (t.eraseDup.subst e2).eraseDup
  | .id x => by
      have hx := h x
      simp only [Term.eraseDup, Term.subst]
      cases h1 : e1.lookup x with
      | none =>
        cases h2 : e2.lookup x with
        | none => rfl
        | some v2 => rw [h1, h2] at hx; cases hx
      | some v1 =>
        cases h2 : e2.lookup x with
        | none => rw [h1, h2] at hx; cases hx
        | some v2 =>
          rw [h1, h2] at hx
          exact Option.some.inj hx
  | .num _ => by simp only [Term.eraseDup, Term.subst]
  | .flt _ => by simp only [Term.eraseDup, Term.subst]
  | .chr _ => by simp only [Term.eraseDup, Term.subst]
  | .str _ => by simp only [Term.eraseDup, Term.subst]
  | .addr t => by simp only [Term.eraseDup, Term.subst, Term.eraseDup_subst h t]
  | .ccast ty t => by simp only [Term.eraseDup, Term.subst, Term.eraseDup_subst h t]
  | .arrow t f => by simp only [Term.eraseDup, Term.subst, Term.eraseDup_subst h t]
  | .app f args => by
      cases hd : isDupApp f args with
      | true =>
        obtain ⟨t, hf, ha⟩ := isDupApp_true hd
        subst hf; subst ha
        rw [Term.eraseDup_dup]
        simp only [Term.subst, substList]
        rw [Term.eraseDup_dup]
        exact Term.eraseDup_subst h t
      | false =>
        have h1 : isDupApp f (substList e1 args) = false := by
          simpa [isDupApp, substList_length] using hd
        have h2 : isDupApp f (substList e2 (eraseDupList args)) = false := by
          simpa [isDupApp, substList_length, eraseDupList_length] using hd
        rw [Term.eraseDup_app_of_isDupApp_false hd]
        simp only [Term.subst]
        rw [Term.eraseDup_app_of_isDupApp_false h1, Term.eraseDup_app_of_isDupApp_false h2,
          eraseDupList_substList h args]
theorem eraseDupList_substList {e1 e2 : Env} (h : EnvDupEq e1 e2) :
    ∀ ts : List Term, eraseDupList (substList e1 ts) = eraseDupList (substList e2 (eraseDupList ts))
  | [] => by simp only [eraseDupList, substList]
  | t :: ts => by
      simp only [eraseDupList, substList, Term.eraseDup_subst h t, eraseDupList_substList h ts]
end

/-- The two forms named in the brief. -/
theorem Term.eraseDup_subst_self (e : Env) (t : Term) : (t.subst e).eraseDup = (t.eraseDup.subst e).eraseDup :=
  Term.eraseDup_subst (EnvDupEq.refl e) t

theorem EnvDupEq.map_eraseDup (e : Env) : EnvDupEq e (e.map (fun p => (p.1, p.2.eraseDup))) := by
  intro x
  induction e with
  | nil => rfl
  | cons p e ih =>
    obtain ⟨n, v⟩ := p
    simp only [List.map_cons, List.lookup_cons]
    split
    · simp only [Option.map_some, Term.eraseDup_idem]
    · exact ih

theorem Term.eraseDup_subst_map (e : Env) (t : Term) :
    (t.subst e).eraseDup = (t.eraseDup.subst (e.map (fun p => (p.1, p.2.eraseDup)))).eraseDup :=
  Term.eraseDup_subst (EnvDupEq.map_eraseDup e) t

/-! ### Items -/

/-- Erase `DUP` in the right-hand side of a declaration / in the returned term. -/
def Item.eraseDup : Item → Item
  | .decl ty n rhs => .decl ty n rhs.eraseDup
  | .ret t => .ret t.eraseDup
  | .comment s => .comment s

/-- Running the `DUP`-erased declarations yields an environment that agrees up to `DUP`. -/
theorem buildEnvIL_eraseDup (items : List Item) {e1 e2 : Env} (h : EnvDupEq e1 e2) :
    EnvDupEq (buildEnvIL items e1) (buildEnvIL (items.map Item.eraseDup) e2) := by
  induction items generalizing e1 e2 with
  | nil => exact h
  | cons x xs ih =>
    cases x with
    | comment s => simpa [buildEnvIL, Item.eraseDup] using ih h
    | ret t => simpa [buildEnvIL, Item.eraseDup] using ih h
    | decl ty name rhs =>
      simp only [List.map_cons, Item.eraseDup]
      rw [buildEnvIL_decl, buildEnvIL_decl]
      split
      · exact ih (h.cons name (Term.eraseDup_subst h rhs))
      · exact ih h

theorem returned_eraseDup (items : List Item) :
    returned (items.map Item.eraseDup) = (returned items).map Term.eraseDup := by
  induction items with
  | nil => rfl
  | cons x xs ih =>
    cases x with
    | comment s => simpa [returned, Item.eraseDup] using ih
    | ret t => simp [returned, Item.eraseDup]
    | decl ty name rhs => simpa [returned, Item.eraseDup] using ih

/-! ### `LayoutWF` does not see `DUP` -/

theorem Item.isILDecl_eraseDup (x : Item) : x.eraseDup.isILDecl = x.isILDecl := by cases x <;> rfl
theorem Item.isPureDecl_eraseDup (x : Item) : x.eraseDup.isPureDecl = x.isPureDecl := by cases x <;> rfl
theorem Item.isEffDecl_eraseDup (x : Item) : x.eraseDup.isEffDecl = x.isEffDecl := by cases x <;> rfl
theorem Item.name_eraseDup (x : Item) : x.eraseDup.name = x.name := by cases x <;> rfl
theorem Item.rhs_eraseDup (x : Item) : x.eraseDup.rhs = x.rhs.eraseDup := by
  cases x with
  | comment s => simp only [Item.eraseDup, Item.rhs, Term.eraseDup]
  | decl ty n r => rfl
  | ret t => rfl

theorem filter_isILDecl_eraseDup (items : List Item) :
    (items.map Item.eraseDup).filter Item.isILDecl = (items.filter Item.isILDecl).map Item.eraseDup := by
  rw [List.filter_map]; congr 1; apply List.filter_congr; intro x _; exact Item.isILDecl_eraseDup x
theorem filter_isPureDecl_eraseDup (items : List Item) :
    (items.map Item.eraseDup).filter Item.isPureDecl = (items.filter Item.isPureDecl).map Item.eraseDup := by
  rw [List.filter_map]; congr 1; apply List.filter_congr; intro x _; exact Item.isPureDecl_eraseDup x
theorem filter_not_isPureDecl_eraseDup (items : List Item) :
    (items.map Item.eraseDup).filter (fun i => !i.isPureDecl) =
      (items.filter (fun i => !i.isPureDecl)).map Item.eraseDup := by
  rw [List.filter_map]; congr 1; apply List.filter_congr; intro x _
  simp only [Function.comp, Item.isPureDecl_eraseDup]
theorem filter_isEffDecl_eraseDup (items : List Item) :
    (items.map Item.eraseDup).filter Item.isEffDecl = (items.filter Item.isEffDecl).map Item.eraseDup := by
  rw [List.filter_map]; congr 1; apply List.filter_congr; intro x _; exact Item.isEffDecl_eraseDup x

theorem all_map_of {α β : Type} (f : α → β) (p : β → Bool) (q : α → Bool) (h : ∀ x, p (f x) = q x) (l : List α) :
    (l.map f).all p = l.all q := by
  induction l with
  | nil => rfl
  | cons x xs ih => simp only [List.map_cons, List.all_cons, h x, ih]

theorem namesDistinct_eraseDup (items : List Item) :
    namesDistinct (items.map Item.eraseDup) = namesDistinct items := by
  induction items with
  | nil => rfl
  | cons x rest ih =>
    simp only [List.map_cons, namesDistinct, ih, filter_isILDecl_eraseDup, Item.isILDecl_eraseDup, Item.name_eraseDup]
    rw [all_map_of Item.eraseDup _ (fun d => d.name != x.name) (fun d => by rw [Item.name_eraseDup])]

theorem noForwardRef_eraseDup (items : List Item) :
    noForwardRef (items.map Item.eraseDup) = noForwardRef items := by
  induction items with
  | nil => rfl
  | cons x rest ih =>
    simp only [List.map_cons, noForwardRef, ih, filter_isILDecl_eraseDup, Item.isILDecl_eraseDup, Item.rhs_eraseDup,
      Term.mentions_eraseDup]
    rw [all_map_of Item.eraseDup _ (fun d => !x.rhs.mentions d.name) (fun d => by rw [Item.name_eraseDup])]

theorem puresAvoidEffects_eraseDup (items : List Item) :
    puresAvoidEffects (items.map Item.eraseDup) = puresAvoidEffects items := by
  simp only [puresAvoidEffects, filter_isPureDecl_eraseDup, filter_isEffDecl_eraseDup]
  apply all_map_of
  intro p
  apply all_map_of
  intro e
  rw [Item.name_eraseDup, Item.rhs_eraseDup, Term.mentions_eraseDup]

/-- `LayoutWF` of the `DUP`-erased list IS `LayoutWF` of the list: names are unchanged and `eraseDup` neither adds nor
    removes an identifier occurrence (`Term.mentions_eraseDup`). -/
theorem layoutWF_eraseDup (items : List Item) : LayoutWF (items.map Item.eraseDup) = LayoutWF items := by
  simp only [LayoutWF, namesDistinct_eraseDup, noForwardRef_eraseDup, puresAvoidEffects_eraseDup]

/-- Hoisting commutes with erasing `DUP`. -/
theorem hoistPures_eraseDup (items : List Item) :
    hoistPures (items.map Item.eraseDup) = (hoistPures items).map Item.eraseDup := by
  simp only [hoistPures, filter_isPureDecl_eraseDup, filter_not_isPureDecl_eraseDup, List.map_append]

/-- `hoistEqual` modulo `DUP`: compare after erasing `DUP` in every right-hand side and returned term. -/
def hoistEqualD (rs ec : List Item) : Bool :=
  hoistEqual (rs.map Item.eraseDup) (ec.map Item.eraseDup)

end Rzil
