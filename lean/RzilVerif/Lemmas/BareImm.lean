import RzilVerif.Model.CarveSem
import RzilVerif.Lemmas.StmtFuel
/-!
  Bare immediate statements in front of an assignment to the same immediate (`riV; riV = riV & ~3;`, the first two
  statements of every direct jump and call): `dropBare` (Model/CarveSem.lean) removes the bare statement.
  * `compileStmtsH_dropBare` / `compileProgH_dropBare`: the lowering model emits the same effect for both programs
    (the bare statement only registers the immediate, which the visit of the assignment target does at the same
    moment);
  * `execCs_dropBare`: the C semantics of both programs is the same (the bare statement is evaluated and discarded).
-/
namespace Rzil
namespace Bare

theorem bind_ok {ε α β : Type} {x : Except ε α} {f : α → Except ε β} {b : β}
    (h : (x >>= f) = .ok b) : ∃ a, x = .ok a ∧ f a = .ok b := by
  cases x with
  | error e => simp [bind, Except.bind] at h
  | ok a => exact ⟨a, rfl, h⟩

theorem bareBefore_spec {s n : CStmt} (h : bareBefore s n = true) :
    ∃ l sg op e, s = .exprstmt (.imm l sg) ∧ n = .assign (.imm l sg) op e := by
  unfold bareBefore at h
  split at h
  · rename_i l sg l' sg' op e
    simp only [Bool.and_eq_true, beq_iff_eq] at h
    obtain ⟨rfl, rfl⟩ := h
    exact ⟨l, sg, op, e, rfl, rfl⟩
  · cases h

theorem dropBare_cons (s : CStmt) (rest : List CStmt) :
    dropBare (s :: rest) =
      if bareHead s rest then dropBare rest
      else dropBareS s :: dropBare rest := by
  rfl

/-- an assignment is never a bare statement -/
theorem dropBare_assign_cons (lhs : CExpr) (op : String) (e : CExpr) (rest : List CStmt) :
    dropBare (.assign lhs op e :: rest) = .assign lhs op e :: dropBare rest := by
  rw [dropBare_cons]
  have : bareHead (.assign lhs op e) rest = false := by
    cases rest with
    | nil => rfl
    | cons n r => simp only [bareHead, bareBefore]
  rw [this]
  simp only [Bool.false_eq_true, ↓reduceIte, dropBareS]

/-! ## the lowering model -/

theorem regLhsH_idem (st : HSt) (l : String) (sg : Bool) :
    regLhsH (regLhsH st (.imm l sg)) (.imm l sg) = regLhsH st (.imm l sg) := by
  simp only [regLhsH]
  by_cases h : st.live.contains l = true
  · simp only [h, ↓reduceIte]
  · simp only [h, Bool.false_eq_true, ↓reduceIte, List.contains_eq_mem, List.mem_append, List.mem_singleton, or_true,
      decide_true]

/-- the bare statement registers the immediate and is no effect -/
theorem compileStmtH_bare (env : CEnv) (st : HSt) (l : String) (sg : Bool) (hl : isHTmp l = false) :
    compileStmtH env st (.exprstmt (.imm l sg)) = .ok (none, [], regLhsH st (.imm l sg)) := by
  simp only [compileStmtH, compileExprH, compileExpr, bind, Except.bind, tmpsOfPure, hl, Bool.false_eq_true, ↓reduceIte,
    regLhsH]

/-- the assignment visits its target first: it does not matter whether the immediate was registered just before -/
theorem compileStmtH_assign_reg (env : CEnv) (st : HSt) (l : String) (sg : Bool) (op : String) (e : CExpr) :
    compileStmtH env (regLhsH st (.imm l sg)) (.assign (.imm l sg) op e) =
      compileStmtH env st (.assign (.imm l sg) op e) := by
  simp only [compileStmtH, regLhsH_idem]

theorem compileStmtsH_cons (env : CEnv) (st : HSt) (s : CStmt) (ss : List CStmt) :
    compileStmtsH env st (s :: ss) = (do
      let (e, b, st) ← compileStmtH env st s
      let (es, bs, st) ← compileStmtsH env st ss
      .ok ((match e with | some e => e :: es | none => es), b ++ bs, st)) := by
  rw [compileStmtsH]; rfl

mutual
theorem compileStmtH_dropBareS (env : CEnv) :
    (s : CStmt) → (st : HSt) → HybFreeS (dropBareS s) = true →
      compileStmtH env st s = compileStmtH env st (dropBareS s)
  | .ite c t none, st, hf => by
      simp only [dropBareS, HybFreeS, Bool.and_eq_true] at hf
      have ih := fun st => compileStmtsH_dropBare env t st hf.1.2
      simp only [dropBareS, compileStmtH, ih]
  | .ite c t (some e), st, hf => by
      simp only [dropBareS, HybFreeS, Bool.and_eq_true] at hf
      have ih1 := fun st => compileStmtsH_dropBare env t st hf.1.2
      have ih2 := fun st => compileStmtsH_dropBare env e st hf.2
      simp only [dropBareS, compileStmtH, ih1, ih2]
  | .for_ v c k b, st, hf => by
      simp only [dropBareS, HybFreeS, Bool.and_eq_true] at hf
      have ih := fun st => compileStmtsH_dropBare env b st hf.1.2
      simp only [dropBareS, compileStmtH, ih]
  | .decl _ _ _, _, _ => by rfl
  | .assign _ _ _, _, _ => by rfl
  | .chain _ _ _ _, _, _ => by rfl
  | .store _ _, _, _ => by rfl
  | .jump _, _, _ => by rfl
  | .skip _, _, _ => by rfl
  | .exprstmt _, _, _ => by rfl
  | .ret _, _, _ => by rfl
  | .vcall _ _ _ _, _, _ => by rfl
theorem compileStmtsH_dropBare (env : CEnv) :
    (ss : List CStmt) → (st : HSt) → HybFreeSs (dropBare ss) = true →
      compileStmtsH env st ss = compileStmtsH env st (dropBare ss)
  | [], st, _ => by rfl
  | s :: rest, st, hf => by
      rw [dropBare_cons] at hf ⊢
      by_cases hb : bareHead s rest = true
      · simp only [hb, ↓reduceIte] at hf ⊢
        cases rest with
        | nil => cases hb
        | cons n rest' =>
          simp only [bareHead] at hb
          obtain ⟨l, sg, op, e, rfl, rfl⟩ := bareBefore_spec hb
          have ih := compileStmtsH_dropBare env (.assign (.imm l sg) op e :: rest') st hf
          rw [← ih]
          -- the immediate's letter is outside the reserved namespace
          have hl : isHTmp l = false := by
            rw [dropBare_assign_cons] at hf
            simp only [HybFreeSs, HybFreeS, HybFree, Bool.and_eq_true, Bool.not_eq_eq_eq_not, Bool.not_true] at hf
            exact hf.1.1
          rw [compileStmtsH_cons, compileStmtH_bare env st l sg hl]
          simp only [bind, Except.bind]
          rw [compileStmtsH_cons, compileStmtsH_cons, compileStmtH_assign_reg]
          cases compileStmtH env st (.assign (.imm l sg) op e) with
          | error m => rfl
          | ok r =>
            obtain ⟨e1, b1, st1⟩ := r
            simp only [bind, Except.bind]
            cases compileStmtsH env st1 rest' with
            | error m => rfl
            | ok r2 =>
              obtain ⟨es, bs, st2⟩ := r2
              simp only [List.nil_append]
      · simp only [hb, Bool.false_eq_true, ↓reduceIte] at hf ⊢
        simp only [HybFreeSs, Bool.and_eq_true] at hf
        have ih1 := compileStmtH_dropBareS env s st hf.1
        have ih2 := fun st => compileStmtsH_dropBare env rest st hf.2
        rw [compileStmtsH_cons, compileStmtsH_cons, ih1]
        simp only [ih2]
end

mutual
theorem assignedOf_dropBareS : (s : CStmt) → assignedOf (dropBareS s) = assignedOf s
  | .ite c t none => by simp only [dropBareS, assignedOf, assignedOfList_dropBare t]
  | .ite c t (some e) => by simp only [dropBareS, assignedOf, assignedOfList_dropBare t, assignedOfList_dropBare e]
  | .for_ v c k b => by simp only [dropBareS, assignedOf, assignedOfList_dropBare b]
  | .decl _ _ _ => by rfl
  | .assign _ _ _ => by rfl
  | .chain _ _ _ _ => by rfl
  | .store _ _ => by rfl
  | .jump _ => by rfl
  | .skip _ => by rfl
  | .exprstmt _ => by rfl
  | .ret _ => by rfl
  | .vcall _ _ _ _ => by rfl
theorem assignedOfList_dropBare : (ss : List CStmt) → assignedOfList (dropBare ss) = assignedOfList ss
  | [] => by rfl
  | s :: rest => by
      rw [dropBare_cons]
      by_cases hb : bareHead s rest = true
      · simp only [hb, ↓reduceIte]
        cases rest with
        | nil => cases hb
        | cons n rest' =>
          simp only [bareHead] at hb
          obtain ⟨l, sg, op, e, rfl, rfl⟩ := bareBefore_spec hb
          rw [assignedOfList_dropBare (.assign (.imm l sg) op e :: rest')]
          simp only [assignedOfList, assignedOf, List.nil_append]
      · simp only [hb, Bool.false_eq_true, ↓reduceIte, assignedOfList, assignedOf_dropBareS s,
          assignedOfList_dropBare rest]
end

/-- **the lowering model emits the same effect** for a behaviour and for the behaviour without its bare immediate
    statements (hypothesis: what is left is hybrid-free, in particular the immediates' letters are outside `h_tmp…`) -/
theorem compileProgH_dropBare (cfg : Cfg) (prog : List CStmt) (hf : HybFreeSs (dropBare prog) = true) :
    compileProgH cfg prog = compileProgH cfg (dropBare prog) := by
  unfold compileProgH
  simp only [assignedOfList_dropBare]
  rw [compileStmtsH_dropBare _ prog _ hf]

/-! ## the C semantics -/

theorem execC_bare (ms : MacroSem) (f : Nat) (l : String) (sg : Bool) (σ : MState) :
    execC ms (f+1) (.exprstmt (.imm l sg)) σ = .ok σ := by
  simp only [execC, evalC, bind, Except.bind]

/-- the C semantics of a behaviour without its bare immediate statements is the C semantics of the behaviour
    (statements, statement lists and loops, by induction on the fuel; the same fuel suffices) -/
theorem exec_dropBare_aux (ms : MacroSem) : ∀ f : Nat,
    (∀ s σ σ', execC ms f s σ = .ok σ' → execC ms f (dropBareS s) σ = .ok σ') ∧
    (∀ ss σ σ', execCs ms f ss σ = .ok σ' → execCs ms f (dropBare ss) σ = .ok σ') ∧
    (∀ v c k b σ σ', loopC ms f v c k b σ = .ok σ' → loopC ms f v c k (dropBare b) σ = .ok σ') := by
  intro f
  induction f with
  | zero =>
    refine ⟨?_, ?_, ?_⟩
    · intro s σ σ' h; simp [execC] at h
    · intro ss σ σ' h; simp [execCs] at h
    · intro v c k b σ σ' h; simp [loopC] at h
  | succ f ih =>
    obtain ⟨ihE, ihS, ihL⟩ := ih
    refine ⟨?_, ?_, ?_⟩
    · intro s σ σ' h
      cases s with
      | ite c t e =>
        cases e with
        | none =>
          simp only [dropBareS, execC] at h ⊢
          obtain ⟨vc, hvc, h⟩ := bind_ok h
          rw [hvc]; simp only [bind, Except.bind]
          obtain ⟨b, hb, h⟩ := bind_ok h
          rw [hb]; simp only
          cases b with
          | true => simp only [↓reduceIte] at h ⊢; exact ihS _ _ _ h
          | false => simp only [Bool.false_eq_true, ↓reduceIte] at h ⊢; exact h
        | some e =>
          simp only [dropBareS, execC] at h ⊢
          obtain ⟨vc, hvc, h⟩ := bind_ok h
          rw [hvc]; simp only [bind, Except.bind]
          obtain ⟨b, hb, h⟩ := bind_ok h
          rw [hb]; simp only
          cases b with
          | true => simp only [↓reduceIte] at h ⊢; exact ihS _ _ _ h
          | false => simp only [Bool.false_eq_true, ↓reduceIte] at h ⊢; exact ihS _ _ _ h
      | for_ v c k b =>
        simp only [dropBareS, execC] at h ⊢
        exact ihL _ _ _ _ _ _ h
      | decl _ _ _ => exact h
      | assign _ _ _ => exact h
      | chain _ _ _ _ => exact h
      | store _ _ => exact h
      | jump _ => exact h
      | skip _ => exact h
      | exprstmt _ => exact h
      | ret _ => exact h
      | vcall _ _ _ _ => exact h
    · intro ss σ σ' h
      cases ss with
      | nil => exact h
      | cons s rest =>
        rw [dropBare_cons]
        rw [execCs] at h
        obtain ⟨σ1, h1, h2⟩ := bind_ok h
        by_cases hb : bareHead s rest = true
        · simp only [hb, ↓reduceIte]
          cases rest with
          | nil => cases hb
          | cons n rest' =>
            simp only [bareHead] at hb
            obtain ⟨l, sg, op, e, rfl, rfl⟩ := bareBefore_spec hb
            -- the bare statement changes nothing
            cases f with
            | zero => simp [execC] at h1
            | succ f =>
              rw [execC_bare] at h1
              cases h1
              exact C05.execCs_mono (ihS _ _ _ h2) _ (Nat.le_succ _)
        · simp only [hb, Bool.false_eq_true, ↓reduceIte]
          rw [execCs, ihE _ _ _ h1]
          exact ihS _ _ _ h2
    · intro v c k b σ σ' h
      rw [loopC] at h ⊢
      obtain ⟨vc, hvc, h⟩ := bind_ok h
      rw [hvc]; simp only [bind, Except.bind]
      obtain ⟨bb, hb, h⟩ := bind_ok h
      rw [hb]; simp only
      cases bb with
      | false => exact h
      | true =>
        simp only [↓reduceIte] at h ⊢
        obtain ⟨σ1, h1, h2⟩ := bind_ok h
        refine C05.bind_ok_of (ihS _ _ _ h1) ?_
        split at h2
        · rename_i w x hx
          exact ihL _ _ _ _ _ _ h2
        · simp at h2

theorem ExecCs_dropBare {ms : MacroSem} {prog : List CStmt} {σ σ' : MState} (h : C05.ExecCs ms prog σ σ') :
    C05.ExecCs ms (dropBare prog) σ σ' := by
  obtain ⟨f, hf⟩ := C05.ExecCs_iff.1 h
  exact C05.ExecCs_iff.2 ⟨f, (exec_dropBare_aux ms f).2.1 _ _ _ hf⟩

end Bare
end Rzil
