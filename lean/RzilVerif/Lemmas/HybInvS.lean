import RzilVerif.Lemmas.HybInv
/-!
  C06 helpers, part 3: inversion of `compileStmtH` / `compileStmtsH`: each statement's result in terms of
  the sub-compilations (evaluation order) and the `chk` calls applied to the base effects.
-/
namespace Rzil
namespace C06
open C05 (bind_ok bind_ok_of)

/-- the init effect of a `for` loop: `SETL(v, x)` (`x`: the literal 0 converted to the counter's type) -/
def forInit (v : String) (x : ILPure) : ILEffect := .setl v x

/-- the init effect of a `for` loop is a `SETL` of the counter -/
theorem forInitH_shape {env : CEnv} {v : String} {t : CT} {ini : ILEffect} (h : forInitH env v t = .ok ini) :
    ∃ x, ini = forInit v x := by
  unfold forInitH at h
  split at h
  · simp only [Except.ok.injEq] at h; exact ⟨_, h.symm⟩
  · obtain ⟨⟨e, src⟩, h1, h⟩ := bind_ok h
    simp only [Except.ok.injEq] at h; subst h
    simp only [compileAssign] at h1
    obtain ⟨cd, _, h1⟩ := bind_ok h1
    obtain ⟨s1, _, h1⟩ := bind_ok h1
    obtain ⟨e1, he, h1⟩ := bind_ok h1
    simp only [Except.ok.injEq, Prod.mk.injEq] at h1
    obtain ⟨rfl, _⟩ := h1
    simp only [destWrite, Except.ok.injEq] at he
    exact ⟨_, he.symm⟩

theorem invS_decl_none {env : CEnv} {st st' : HSt} {eff b t n}
    (h : compileStmtH env st (.decl t n none) = .ok (eff, b, st')) :
    eff = some .empty ∧ b = [] ∧ st' = st := by
  simp only [compileStmtH, Except.ok.injEq, Prod.mk.injEq] at h
  exact ⟨h.1.symm, h.2.1.symm, h.2.2.symm⟩

theorem invS_decl {env : CEnv} {st st' : HSt} {eff b t n e}
    (h : compileStmtH env st (.decl t n (some e)) = .ok (eff, b, st')) :
    ∃ c1 s1, compileExprH env st e = .ok (c1, s1) ∧
      eff = some (chk s1 (.setl n (gccSrc env.cfg t c1).il) []).1 ∧ b = [] ∧
      st' = (chk s1 (.setl n (gccSrc env.cfg t c1).il) []).2 := by
  simp only [compileStmtH] at h
  obtain ⟨⟨c1, s1⟩, h1, h⟩ := bind_ok h
  simp only [Except.ok.injEq, Prod.mk.injEq] at h
  obtain ⟨rfl, rfl, rfl⟩ := h
  exact ⟨c1, s1, h1, rfl, rfl, rfl⟩

theorem invS_assign {env : CEnv} {st st' : HSt} {eff b lhs op e}
    (h : compileStmtH env st (.assign lhs op e) = .ok (eff, b, st')) :
    ∃ c1 s1 eff0 src, compileExprH env (regLhsH st lhs) e = .ok (c1, s1) ∧ compileAssign env lhs op c1 = .ok (eff0, src) ∧
      eff = some (chk s1 eff0 []).1 ∧ b = [] ∧ st' = (chk s1 eff0 []).2 := by
  simp only [compileStmtH] at h
  obtain ⟨⟨c1, s1⟩, h1, h⟩ := bind_ok h
  obtain ⟨⟨eff0, src⟩, h2, h⟩ := bind_ok h
  simp only [Except.ok.injEq, Prod.mk.injEq] at h
  obtain ⟨rfl, rfl, rfl⟩ := h
  exact ⟨c1, s1, eff0, src, h1, h2, rfl, rfl, rfl⟩

theorem invS_chain {env : CEnv} {st st' : HSt} {eff b lhs1 lhs2 op2 e}
    (h : compileStmtH env st (.chain lhs1 lhs2 op2 e) = .ok (eff, b, st')) :
    ∃ c1 s1 effI srcI effO srcO, compileExprH env (regLhsH (regLhsH st lhs1) lhs2) e = .ok (c1, s1) ∧
      compileAssign env lhs2 op2 c1 = .ok (effI, srcI) ∧ compileAssign env lhs1 "=" srcI = .ok (effO, srcO) ∧
      eff = some (chk (chk (chk s1 effI []).2 effO []).2 (mkSeq [(chk (chk s1 effI []).2 effO []).1, (chk s1 effI []).1]) []).1 ∧
      b = [] ∧
      st' = (chk (chk (chk s1 effI []).2 effO []).2 (mkSeq [(chk (chk s1 effI []).2 effO []).1, (chk s1 effI []).1]) []).2 := by
  simp only [compileStmtH] at h
  obtain ⟨⟨c1, s1⟩, h1, h⟩ := bind_ok h
  obtain ⟨⟨effI, srcI⟩, h2, h⟩ := bind_ok h
  obtain ⟨⟨effO, srcO⟩, h3, h⟩ := bind_ok h
  simp only [Except.ok.injEq, Prod.mk.injEq] at h
  obtain ⟨rfl, rfl, rfl⟩ := h
  exact ⟨c1, s1, effI, srcI, effO, srcO, h1, h2, h3, rfl, rfl, rfl⟩

theorem invS_store {env : CEnv} {st st' : HSt} {eff b w e}
    (h : compileStmtH env st (.store w e) = .ok (eff, b, st')) :
    ∃ c1 s1 data, compileExprH env st e = .ok (c1, s1) ∧
      eff = some (chk s1 (.storew (.varl "EA") data) []).1 ∧ b = [] ∧
      st' = (chk s1 (.storew (.varl "EA") data) []).2 := by
  simp only [compileStmtH] at h
  obtain ⟨⟨c1, s1⟩, h1, h⟩ := bind_ok h
  simp only [Except.ok.injEq, Prod.mk.injEq] at h
  obtain ⟨rfl, rfl, rfl⟩ := h
  exact ⟨c1, s1, _, h1, rfl, rfl, rfl⟩

theorem invS_ite_none {env : CEnv} {st st' : HSt} {eff b c t}
    (h : compileStmtH env st (.ite c t none) = .ok (eff, b, st')) :
    ∃ cc s1 ts tb s2, compileExprH env st c = .ok (cc, s1) ∧ compileStmtsH env s1 t = .ok (ts, tb, s2) ∧
      eff = some (chk (chk s2 (mkSeq ts) tb).2 (.branch (condIL env.cfg cc) (chk s2 (mkSeq ts) tb).1 .empty) []).1 ∧
      b = [] ∧
      st' = (chk (chk s2 (mkSeq ts) tb).2 (.branch (condIL env.cfg cc) (chk s2 (mkSeq ts) tb).1 .empty) []).2 := by
  simp only [compileStmtH] at h
  obtain ⟨⟨cc, s1⟩, h1, h⟩ := bind_ok h
  obtain ⟨⟨ts, tb, s2⟩, h2, h⟩ := bind_ok h
  simp only [Except.ok.injEq, Prod.mk.injEq] at h
  obtain ⟨rfl, rfl, rfl⟩ := h
  exact ⟨cc, s1, ts, tb, s2, h1, h2, rfl, rfl, rfl⟩

theorem invS_ite_some {env : CEnv} {st st' : HSt} {eff b c t e}
    (h : compileStmtH env st (.ite c t (some e)) = .ok (eff, b, st')) :
    ∃ cc s1 ts tb s2 es eb s3, compileExprH env st c = .ok (cc, s1) ∧ compileStmtsH env s1 t = .ok (ts, tb, s2) ∧
      compileStmtsH env (chk s2 (mkSeq ts) tb).2 e = .ok (es, eb, s3) ∧
      eff = some (chk (chk s3 (mkSeq es) eb).2
              (.branch (condIL env.cfg cc) (chk s2 (mkSeq ts) tb).1 (chk s3 (mkSeq es) eb).1) []).1 ∧
      b = [] ∧
      st' = (chk (chk s3 (mkSeq es) eb).2
              (.branch (condIL env.cfg cc) (chk s2 (mkSeq ts) tb).1 (chk s3 (mkSeq es) eb).1) []).2 := by
  simp only [compileStmtH] at h
  obtain ⟨⟨cc, s1⟩, h1, h⟩ := bind_ok h
  obtain ⟨⟨ts, tb, s2⟩, h2, h⟩ := bind_ok h
  obtain ⟨⟨es, eb, s3⟩, h3, h⟩ := bind_ok h
  simp only [Except.ok.injEq, Prod.mk.injEq] at h
  obtain ⟨rfl, rfl, rfl⟩ := h
  exact ⟨cc, s1, ts, tb, s2, es, eb, s3, h1, h2, h3, rfl, rfl, rfl⟩

theorem invS_for0 {env : CEnv} {st st' : HSt} {eff b v cond body}
    (h : compileStmtH env st (.for_ v cond 0 body) = .ok (eff, b, st')) :
    ∃ x cc s1 bs bb s3, forInitH env v (loopVarTy v cond) = .ok (forInit v x) ∧
      compileExprH env (chk st (forInit v x) []).2 cond = .ok (cc, s1) ∧
      compileStmtsH env (postState s1 v (loopVarTy v cond) "++") body = .ok (bs, bb, s3) ∧
      eff = some (chk (chk s3 (mkSeq bs) (bb ++ [tmpName s1.hyb]) true).2
              (.seqn [(chk st (forInit v x) []).1,
                      .repeat_ (condIL env.cfg cc) (chk s3 (mkSeq bs) (bb ++ [tmpName s1.hyb]) true).1]) []).1 ∧
      b = [] ∧
      st' = (chk (chk s3 (mkSeq bs) (bb ++ [tmpName s1.hyb]) true).2
              (.seqn [(chk st (forInit v x) []).1,
                      .repeat_ (condIL env.cfg cc) (chk s3 (mkSeq bs) (bb ++ [tmpName s1.hyb]) true).1]) []).2 := by
  simp only [compileStmtH] at h
  obtain ⟨ini, h0, h⟩ := bind_ok h
  obtain ⟨x, rfl⟩ := forInitH_shape h0
  obtain ⟨⟨cc, s1⟩, h1, h⟩ := bind_ok h
  simp only [beq_self_eq_true, ↓reduceIte] at h
  obtain ⟨⟨stepCE, s2⟩, h2, h⟩ := bind_ok h
  obtain ⟨rfl, rfl⟩ := inv_post h2
  obtain ⟨⟨bs, bb, s3⟩, h3, h⟩ := bind_ok h
  simp only [Except.ok.injEq, Prod.mk.injEq] at h
  obtain ⟨rfl, rfl, rfl⟩ := h
  exact ⟨x, cc, s1, bs, bb, s3, h0, h1, h3, rfl, rfl, rfl⟩

theorem invS_forK {env : CEnv} {st st' : HSt} {eff b v cond step body} (hk : step ≠ 0)
    (h : compileStmtH env st (.for_ v cond step body) = .ok (eff, b, st')) :
    ∃ x cc s1 stepEff stepSrc bs bb s3, forInitH env v (loopVarTy v cond) = .ok (forInit v x) ∧
      compileExprH env (chk st (forInit v x) []).2 cond = .ok (cc, s1) ∧
      compileAssign env (.var v (loopVarTy v cond)) "+=" { il := numberIL ⟨true, 32, 1⟩ step, ty := ⟨true, 32, 1⟩, kind := .lit step }
        = .ok (stepEff, stepSrc) ∧
      compileStmtsH env s1 body = .ok (bs, bb, s3) ∧
      eff = some (chk (chk s3 (mkSeq (bs ++ [stepEff])) bb true).2
              (.seqn [(chk st (forInit v x) []).1,
                      .repeat_ (condIL env.cfg cc) (chk s3 (mkSeq (bs ++ [stepEff])) bb true).1]) []).1 ∧
      b = [] ∧
      st' = (chk (chk s3 (mkSeq (bs ++ [stepEff])) bb true).2
              (.seqn [(chk st (forInit v x) []).1,
                      .repeat_ (condIL env.cfg cc) (chk s3 (mkSeq (bs ++ [stepEff])) bb true).1]) []).2 := by
  simp only [compileStmtH] at h
  obtain ⟨ini, h0, h⟩ := bind_ok h
  obtain ⟨x, rfl⟩ := forInitH_shape h0
  obtain ⟨⟨cc, s1⟩, h1, h⟩ := bind_ok h
  have : (step == 0) = false := by simp [hk]
  simp only [this, Bool.false_eq_true, ↓reduceIte] at h
  obtain ⟨⟨stepEff, stepSrc⟩, h2, h⟩ := bind_ok h
  obtain ⟨⟨bs, bb, s3⟩, h3, h⟩ := bind_ok h
  simp only [Except.ok.injEq, Prod.mk.injEq] at h
  obtain ⟨rfl, rfl, rfl⟩ := h
  exact ⟨x, cc, s1, stepEff, stepSrc, bs, bb, s3, h0, h1, h2, h3, rfl, rfl, rfl⟩

theorem invS_jump {env : CEnv} {st st' : HSt} {eff b e}
    (h : compileStmtH env st (.jump e) = .ok (eff, b, st')) :
    ∃ c1 s1 ta, compileExprH env st e = .ok (c1, s1) ∧
      eff = some (chk s1 (.seqn [.setl "jump_flag" .btrue, .setl "jump_target" ta]) []).1 ∧ b = [] ∧
      st' = (chk s1 (.seqn [.setl "jump_flag" .btrue, .setl "jump_target" ta]) []).2 := by
  simp only [compileStmtH] at h
  obtain ⟨⟨c1, s1⟩, h1, h⟩ := bind_ok h
  simp only [Except.ok.injEq, Prod.mk.injEq] at h
  obtain ⟨rfl, rfl, rfl⟩ := h
  exact ⟨c1, s1, _, h1, rfl, rfl, rfl⟩

theorem invS_exprstmt {env : CEnv} {st st' : HSt} {eff b e}
    (h : compileStmtH env st (.exprstmt e) = .ok (eff, b, st')) :
    ∃ c1, compileExprH env st e = .ok (c1, st') ∧ eff = none ∧ b = tmpsOfPure c1.il := by
  simp only [compileStmtH] at h
  obtain ⟨⟨c1, s1⟩, h1, h⟩ := bind_ok h
  simp only [Except.ok.injEq, Prod.mk.injEq] at h
  obtain ⟨rfl, rfl, rfl⟩ := h
  exact ⟨c1, h1, rfl, rfl⟩

theorem invS_ret {env : CEnv} {st st' : HSt} {eff b e}
    (h : compileStmtH env st (.ret e) = .ok (eff, b, st')) :
    ∃ c1 src, compileExprH env st e = .ok (c1, st') ∧ eff = some (.setl "ret_val" src) ∧ b = [] := by
  simp only [compileStmtH] at h
  obtain ⟨⟨c1, s1⟩, h1, h⟩ := bind_ok h
  simp only [Except.ok.injEq, Prod.mk.injEq] at h
  obtain ⟨rfl, rfl, rfl⟩ := h
  exact ⟨c1, _, h1, rfl, rfl⟩

theorem invS_vcall {env : CEnv} {st st' : HSt} {eff b name exts args params}
    (h : compileStmtH env st (.vcall name exts args params) = .ok (eff, b, st')) :
    ∃ cargs, compileArgsH env st args params = .ok (cargs, st') ∧ eff = some (vcallEffect name exts cargs) ∧ b = [] := by
  simp only [compileStmtH] at h
  obtain ⟨⟨cargs, s1⟩, h1, h⟩ := bind_ok h
  simp only [Except.ok.injEq, Prod.mk.injEq] at h
  obtain ⟨rfl, rfl, rfl⟩ := h
  exact ⟨cargs, h1, rfl, rfl⟩

theorem invS_skip {env : CEnv} {st st' : HSt} {eff b w}
    (h : compileStmtH env st (.skip w) = .ok (eff, b, st')) :
    (∃ x, eff = some x ∧ setTmps x = []) ∧ b = [] ∧ st' = st := by
  simp only [compileStmtH] at h
  split at h
  · simp only [Except.ok.injEq, Prod.mk.injEq] at h
    obtain ⟨rfl, rfl, rfl⟩ := h
    exact ⟨⟨_, rfl, by simp [setTmps]⟩, rfl, rfl⟩
  · split at h <;>
    · simp only [Except.ok.injEq, Prod.mk.injEq] at h
      obtain ⟨rfl, rfl, rfl⟩ := h
      exact ⟨⟨_, rfl, by simp [setTmps]⟩, rfl, rfl⟩

theorem invS_cons {env : CEnv} {st st' : HSt} {s : CStmt} {ss : List CStmt} {es : List ILEffect} {b : List String}
    (h : compileStmtsH env st (s :: ss) = .ok (es, b, st')) :
    ∃ e b1 s1 es' b2, compileStmtH env st s = .ok (e, b1, s1) ∧ compileStmtsH env s1 ss = .ok (es', b2, st') ∧
      es = (match e with | some e => e :: es' | none => es') ∧ b = b1 ++ b2 := by
  simp only [compileStmtsH] at h
  obtain ⟨⟨e, b1, s1⟩, h1, h⟩ := bind_ok h
  obtain ⟨⟨es', b2, s2⟩, h2, h⟩ := bind_ok h
  simp only [Except.ok.injEq, Prod.mk.injEq] at h
  obtain ⟨rfl, rfl, rfl⟩ := h
  exact ⟨e, b1, s1, es', b2, h1, h2, rfl, rfl⟩

theorem invS_nil {env : CEnv} {st st' : HSt} {es : List ILEffect} {b : List String}
    (h : compileStmtsH env st [] = .ok (es, b, st')) : es = [] ∧ b = [] ∧ st' = st := by
  simp only [compileStmtsH, Except.ok.injEq, Prod.mk.injEq] at h
  exact ⟨h.1.symm, h.2.1.symm, h.2.2.symm⟩

end C06
end Rzil
