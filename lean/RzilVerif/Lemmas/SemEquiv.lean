import RzilVerif.Model.ILSem
/-!
# Equivalence of IL terms: equal evaluation up to the error message

`PEqAt ms σ lets a b`: the pures `a` and `b` evaluate alike in the state `σ` (both stuck, or both to the same value);
`PEquiv a b`: in every state.  `EEqAt`/`EEquiv`: the same for effects (for every amount of fuel).
The relation is weaker than syntactic equality and implies equal evaluation; it is a congruence for every constructor
of `ILPure` and `ILEffect`.  Base lemma `cast_fill_irrelevant`: the fill operand of a `CAST` that does not widen
cannot influence the value.

Errors are identified (`Except.toOption`) because the two terms of the base lemma may be stuck for different reasons:
`CAST(8, MSB(x), x)` with `x` a boolean is stuck in `MSB`, `CAST(8, IL_FALSE, x)` is stuck in `CAST`.
-/
namespace Rzil

/-! ## `toOption` of a bind -/

theorem toOption_bind {ε α β : Type} (x : Except ε α) (f : α → Except ε β) :
    (x >>= f).toOption = x.toOption.bind (fun a => (f a).toOption) := by
  cases x <;> rfl

theorem toOption_bind_congr {ε α β : Type} {x y : Except ε α} {f g : α → Except ε β}
    (h : x.toOption = y.toOption) (hf : ∀ a, (f a).toOption = (g a).toOption) :
    (x >>= f).toOption = (y >>= g).toOption := by
  rw [toOption_bind, toOption_bind, h]
  congr 1
  funext a
  exact hf a

theorem toOption_bind_error {ε α β : Type} (x : Except ε α) (e : ε) :
    (x >>= fun _ => (Except.error e : Except ε β)).toOption = none := by
  cases x <;> rfl

theorem toOption_eq_some {ε α : Type} {x : Except ε α} {a : α} : x.toOption = some a ↔ x = .ok a := by
  cases x with
  | error e => simp [Except.toOption]
  | ok b => simp [Except.toOption]

/-- equal `toOption`: the same `ok` results -/
theorem ok_of_toOption_eq {ε α : Type} {x y : Except ε α} (h : x.toOption = y.toOption) {a : α} (hx : x = .ok a) :
    y = .ok a := by
  rw [← toOption_eq_some, ← h, toOption_eq_some]; exact hx

/-! ## unfolding equations of `evalPure` (the `match`es named, so that they can be stated once) -/

def castVal (w : Nat) (vf va : Val) : Except Stuck Val :=
  match vf, va with
  | .bool fb, .bv _ x => .ok (.bv w (ilCast w fb x))
  | _, _ => .error (.sort "CAST")

def signedVal (w : Nat) (va : Val) : Except Stuck Val :=
  match va with
  | .bv _ x => .ok (.bv w (ilCast w x.msb x))
  | _ => .error (.sort "SIGNED")

def unsignedVal (w : Nat) (va : Val) : Except Stuck Val :=
  match va with
  | .bv _ x => .ok (.bv w (ilCast w false x))
  | _ => .error (.sort "UNSIGNED")

def iteVal (vc va vb : Val) : Except Stuck Val :=
  match vc with
  | .bool cb => if va.sort == vb.sort then .ok (if cb then va else vb) else .error (.sort "ITE arms")
  | _ => .error (.sort "ITE condition")

def loadVal (σ : MState) (n : Nat) (va : Val) : Except Stuck Val :=
  match va with
  | .bv _ x => .ok (.bv n (BitVec.ofNat n (loadBytes σ.mem x.toNat (n / 8))))
  | _ => .error (.sort "LOADW")

def incVal (w : Nat) (va : Val) : Except Stuck Val :=
  match va with
  | .bv w' x => if w' = w then .ok (.bv w' (x + 1)) else .error (.sort "INC")
  | _ => .error (.sort "INC")

def decVal (w : Nat) (va : Val) : Except Stuck Val :=
  match va with
  | .bv w' x => if w' = w then .ok (.bv w' (x - 1)) else .error (.sort "DEC")
  | _ => .error (.sort "DEC")

def macroVal (ms : MacroSem) (f : String) (vs : List Val) : Except Stuck Val :=
  match ms f vs with
  | some v => .ok v
  | none => .error (.undef f)

section eqns
variable (ms : MacroSem) (σ : MState) (lets : List (String × Val))

theorem evalPure_un (op a) : evalPure ms σ lets (.un op a) = (evalPure ms σ lets a >>= evalUn op) := by
  rw [evalPure]
theorem evalPure_bin (op a b) : evalPure ms σ lets (.bin op a b) =
    (evalPure ms σ lets a >>= fun va => evalPure ms σ lets b >>= fun vb => evalBin op va vb) := by
  rw [evalPure]
theorem evalPure_cast (w f a) : evalPure ms σ lets (.cast w f a) =
    (evalPure ms σ lets f >>= fun vf => evalPure ms σ lets a >>= fun va => castVal w vf va) := by
  rw [evalPure]; rfl
theorem evalPure_signed (w a) : evalPure ms σ lets (.signed w a) = (evalPure ms σ lets a >>= signedVal w) := by
  rw [evalPure]; rfl
theorem evalPure_unsigned (w a) : evalPure ms σ lets (.unsigned w a) = (evalPure ms σ lets a >>= unsignedVal w) := by
  rw [evalPure]; rfl
theorem evalPure_ite (c a b) : evalPure ms σ lets (.ite c a b) =
    (evalPure ms σ lets c >>= fun vc => evalPure ms σ lets a >>= fun va => evalPure ms σ lets b >>= fun vb =>
      iteVal vc va vb) := by
  rw [evalPure]; rfl
theorem evalPure_let (n v body) : evalPure ms σ lets (.let_ n v body) =
    (evalPure ms σ lets v >>= fun vv => evalPure ms σ ((n, vv) :: lets) body) := by
  rw [evalPure]
theorem evalPure_loadw (n a) : evalPure ms σ lets (.loadw n a) = (evalPure ms σ lets a >>= loadVal σ n) := by
  rw [evalPure]; rfl
theorem evalPure_inc (a w) : evalPure ms σ lets (.inc a w) = (evalPure ms σ lets a >>= incVal w) := by
  rw [evalPure]; rfl
theorem evalPure_dec (a w) : evalPure ms σ lets (.dec a w) = (evalPure ms σ lets a >>= decVal w) := by
  rw [evalPure]; rfl
theorem evalPure_macro (f args) : evalPure ms σ lets (.macro f args) =
    (evalPures ms σ lets args >>= macroVal ms f) := by
  rw [evalPure]; rfl
theorem evalPure_bfalse : evalPure ms σ lets .bfalse = .ok (.bool false) := by rw [evalPure]
theorem evalPure_btrue : evalPure ms σ lets .btrue = .ok (.bool true) := by rw [evalPure]
theorem evalPure_const (s w v) : evalPure ms σ lets (.const s w v) = .ok (.bv w (BitVec.ofInt w v)) := by rw [evalPure]
theorem evalPures_nil : evalPures ms σ lets [] = .ok [] := by rw [evalPures]
theorem evalPures_cons (a as) : evalPures ms σ lets (a :: as) =
    (evalPure ms σ lets a >>= fun v => evalPures ms σ lets as >>= fun vs => .ok (v :: vs)) := by
  rw [evalPures]

end eqns

/-! ## the relation on pures -/

/-- `a` and `b` evaluate alike in `σ` under the `LET` bindings `lets` -/
def PEqAt (ms : MacroSem) (σ : MState) (lets : List (String × Val)) (a b : ILPure) : Prop :=
  (evalPure ms σ lets a).toOption = (evalPure ms σ lets b).toOption

def PsEqAt (ms : MacroSem) (σ : MState) (lets : List (String × Val)) (as bs : List ILPure) : Prop :=
  (evalPures ms σ lets as).toOption = (evalPures ms σ lets bs).toOption

/-- extensional equivalence of pures: alike in every state -/
def PEquiv (a b : ILPure) : Prop := ∀ ms σ lets, PEqAt ms σ lets a b

/-- equivalence on the states satisfying `P` (e.g. the typed states `SInv c`) -/
def PEquivOn (P : MState → Prop) (a b : ILPure) : Prop := ∀ ms σ lets, P σ → PEqAt ms σ lets a b

theorem PEquiv.on {a b : ILPure} (h : PEquiv a b) (P : MState → Prop) : PEquivOn P a b := fun ms σ lets _ => h ms σ lets

section pure
variable {ms : MacroSem} {σ : MState} {lets : List (String × Val)}

theorem PEqAt.refl (a : ILPure) : PEqAt ms σ lets a a := rfl
theorem PEqAt.symm {a b : ILPure} (h : PEqAt ms σ lets a b) : PEqAt ms σ lets b a := Eq.symm h
theorem PEqAt.trans {a b c : ILPure} (h₁ : PEqAt ms σ lets a b) (h₂ : PEqAt ms σ lets b c) : PEqAt ms σ lets a c :=
  Eq.trans h₁ h₂
theorem PEqAt.of_eq {a b : ILPure} (h : a = b) : PEqAt ms σ lets a b := h ▸ rfl

/-- the relation implies equal evaluation: the same `ok` results … -/
theorem PEqAt.ok {a b : ILPure} (h : PEqAt ms σ lets a b) {v : Val} (ha : evalPure ms σ lets a = .ok v) :
    evalPure ms σ lets b = .ok v := ok_of_toOption_eq h ha

theorem PEqAt.ok_iff {a b : ILPure} (h : PEqAt ms σ lets a b) (v : Val) :
    evalPure ms σ lets a = .ok v ↔ evalPure ms σ lets b = .ok v := ⟨h.ok, h.symm.ok⟩

/-- … and stuck together -/
theorem PEqAt.stuck_iff {a b : ILPure} (h : PEqAt ms σ lets a b) :
    (∃ e, evalPure ms σ lets a = .error e) ↔ (∃ e, evalPure ms σ lets b = .error e) := by
  unfold PEqAt at h
  cases ha : evalPure ms σ lets a <;> cases hb : evalPure ms σ lets b <;> rw [ha, hb] at h <;>
    simp [Except.toOption] at h ⊢

theorem PsEqAt.refl (as : List ILPure) : PsEqAt ms σ lets as as := rfl

/-! ### congruence: one lemma per constructor of `ILPure` with sub-terms -/

theorem PEqAt.un (op : UnOp) {a a' : ILPure} (h : PEqAt ms σ lets a a') : PEqAt ms σ lets (.un op a) (.un op a') := by
  unfold PEqAt; rw [evalPure_un, evalPure_un]; exact toOption_bind_congr h (fun _ => rfl)

theorem PEqAt.bin (op : BinOp) {a a' b b' : ILPure} (ha : PEqAt ms σ lets a a') (hb : PEqAt ms σ lets b b') :
    PEqAt ms σ lets (.bin op a b) (.bin op a' b') := by
  unfold PEqAt; rw [evalPure_bin, evalPure_bin]
  exact toOption_bind_congr ha (fun _ => toOption_bind_congr hb (fun _ => rfl))

theorem PEqAt.cast (w : Nat) {f f' a a' : ILPure} (hf : PEqAt ms σ lets f f') (ha : PEqAt ms σ lets a a') :
    PEqAt ms σ lets (.cast w f a) (.cast w f' a') := by
  unfold PEqAt; rw [evalPure_cast, evalPure_cast]
  exact toOption_bind_congr hf (fun _ => toOption_bind_congr ha (fun _ => rfl))

theorem PEqAt.signed (w : Nat) {a a' : ILPure} (h : PEqAt ms σ lets a a') :
    PEqAt ms σ lets (.signed w a) (.signed w a') := by
  unfold PEqAt; rw [evalPure_signed, evalPure_signed]; exact toOption_bind_congr h (fun _ => rfl)

theorem PEqAt.unsigned (w : Nat) {a a' : ILPure} (h : PEqAt ms σ lets a a') :
    PEqAt ms σ lets (.unsigned w a) (.unsigned w a') := by
  unfold PEqAt; rw [evalPure_unsigned, evalPure_unsigned]; exact toOption_bind_congr h (fun _ => rfl)

theorem PEqAt.ite {c c' a a' b b' : ILPure} (hc : PEqAt ms σ lets c c') (ha : PEqAt ms σ lets a a')
    (hb : PEqAt ms σ lets b b') : PEqAt ms σ lets (.ite c a b) (.ite c' a' b') := by
  unfold PEqAt; rw [evalPure_ite, evalPure_ite]
  exact toOption_bind_congr hc (fun _ => toOption_bind_congr ha (fun _ => toOption_bind_congr hb (fun _ => rfl)))

theorem PEqAt.let_ (n : String) {v v' b b' : ILPure} (hv : PEqAt ms σ lets v v')
    (hb : ∀ vv, PEqAt ms σ ((n, vv) :: lets) b b') : PEqAt ms σ lets (.let_ n v b) (.let_ n v' b') := by
  unfold PEqAt; rw [evalPure_let, evalPure_let]
  exact toOption_bind_congr hv (fun vv => hb vv)

theorem PEqAt.loadw (n : Nat) {a a' : ILPure} (h : PEqAt ms σ lets a a') :
    PEqAt ms σ lets (.loadw n a) (.loadw n a') := by
  unfold PEqAt; rw [evalPure_loadw, evalPure_loadw]; exact toOption_bind_congr h (fun _ => rfl)

theorem PEqAt.inc (w : Nat) {a a' : ILPure} (h : PEqAt ms σ lets a a') : PEqAt ms σ lets (.inc a w) (.inc a' w) := by
  unfold PEqAt; rw [evalPure_inc, evalPure_inc]; exact toOption_bind_congr h (fun _ => rfl)

theorem PEqAt.dec (w : Nat) {a a' : ILPure} (h : PEqAt ms σ lets a a') : PEqAt ms σ lets (.dec a w) (.dec a' w) := by
  unfold PEqAt; rw [evalPure_dec, evalPure_dec]; exact toOption_bind_congr h (fun _ => rfl)

theorem PsEqAt.cons {a a' : ILPure} {as as' : List ILPure} (h : PEqAt ms σ lets a a') (hs : PsEqAt ms σ lets as as') :
    PsEqAt ms σ lets (a :: as) (a' :: as') := by
  unfold PsEqAt; rw [evalPures_cons, evalPures_cons]
  exact toOption_bind_congr h (fun _ => toOption_bind_congr hs (fun _ => rfl))

theorem PEqAt.macro (f : String) {as as' : List ILPure} (h : PsEqAt ms σ lets as as') :
    PEqAt ms σ lets (.macro f as) (.macro f as') := by
  unfold PEqAt; rw [evalPure_macro, evalPure_macro]; exact toOption_bind_congr h (fun _ => rfl)

/-! ### the base lemma -/

theorem ilCast_of_le {n : Nat} {w : Nat} (h : w ≤ n) (b : Bool) (x : BitVec n) : ilCast w b x = x.setWidth w := by
  unfold ilCast; rw [if_pos h]

theorem castVal_nonbv_left (w : Nat) (vf va : Val) (h : ∀ n (x : BitVec n), va ≠ .bv n x) :
    (castVal w vf va).toOption = none := by
  cases va with
  | bv n x => exact absurd rfl (h n x)
  | bool b => cases vf <;> rfl
  | flt n x => cases vf <;> rfl
  | ext => cases vf <;> rfl

/-- **Base lemma.** `CAST(w, f₁, x)` and `CAST(w, f₂, x)` evaluate alike when both fill operands evaluate to a boolean
    whenever `x` evaluates to a bit-vector, and that bit-vector is at least `w` bits wide (the cast does not widen). -/
theorem cast_fill_irrelevant {w : Nat} {f₁ f₂ x : ILPure}
    (h₁ : ∀ n (y : BitVec n), evalPure ms σ lets x = .ok (.bv n y) → ∃ b, evalPure ms σ lets f₁ = .ok (.bool b))
    (h₂ : ∀ n (y : BitVec n), evalPure ms σ lets x = .ok (.bv n y) → ∃ b, evalPure ms σ lets f₂ = .ok (.bool b))
    (hw : ∀ n (y : BitVec n), evalPure ms σ lets x = .ok (.bv n y) → w ≤ n) :
    PEqAt ms σ lets (.cast w f₁ x) (.cast w f₂ x) := by
  unfold PEqAt; rw [evalPure_cast, evalPure_cast]
  cases hx : evalPure ms σ lets x with
  | error e =>
    have : ∀ f : ILPure, (evalPure ms σ lets f >>= fun vf => (Except.error e : Except Stuck Val) >>= fun va => castVal w vf va).toOption = none :=
      fun f => toOption_bind_error _ e
    rw [this, this]
  | ok v =>
    cases v with
    | bv n y =>
      obtain ⟨b₁, e₁⟩ := h₁ n y hx
      obtain ⟨b₂, e₂⟩ := h₂ n y hx
      have hle := hw n y hx
      rw [e₁, e₂]
      simp only [bind, Except.bind, castVal, ilCast_of_le hle]
    | bool b =>
      have : ∀ f : ILPure, (evalPure ms σ lets f >>= fun vf => (Except.ok (Val.bool b) : Except Stuck Val) >>= fun va => castVal w vf va).toOption = none := by
        intro f
        cases evalPure ms σ lets f with
        | error e => rfl
        | ok vf => exact castVal_nonbv_left w vf _ (fun _ _ h => by cases h)
      rw [this, this]
    | flt m z =>
      have : ∀ f : ILPure, (evalPure ms σ lets f >>= fun vf => (Except.ok (Val.flt m z) : Except Stuck Val) >>= fun va => castVal w vf va).toOption = none := by
        intro f
        cases evalPure ms σ lets f with
        | error e => rfl
        | ok vf => exact castVal_nonbv_left w vf _ (fun _ _ h => by cases h)
      rw [this, this]
    | ext =>
      have : ∀ f : ILPure, (evalPure ms σ lets f >>= fun vf => (Except.ok Val.ext : Except Stuck Val) >>= fun va => castVal w vf va).toOption = none := by
        intro f
        cases evalPure ms σ lets f with
        | error e => rfl
        | ok vf => exact castVal_nonbv_left w vf _ (fun _ _ h => by cases h)
      rw [this, this]

/-- `MSB(x)` evaluates exactly when `x` evaluates to a bit-vector -/
theorem evalPure_msb_of_bv {x : ILPure} {n : Nat} {y : BitVec n} (h : evalPure ms σ lets x = .ok (.bv n y)) :
    evalPure ms σ lets (.un .msb x) = .ok (.bool y.msb) := by
  rw [evalPure_un, h]; rfl

/-- the two fill operands the lowering emits, on a cast that does not widen: `IL_FALSE` (as coded, signed source to
    unsigned target) against `MSB(x)` (repaired) -/
theorem cast_bfalse_msb {w : Nat} {x x' : ILPure} (hx : PEqAt ms σ lets x x')
    (hw : ∀ n (y : BitVec n), evalPure ms σ lets x' = .ok (.bv n y) → w ≤ n) :
    PEqAt ms σ lets (.cast w .bfalse x) (.cast w (.un .msb x') x') := by
  refine PEqAt.trans (PEqAt.cast w (PEqAt.refl _) hx) ?_
  exact cast_fill_irrelevant (fun _ _ _ => ⟨false, evalPure_bfalse ms σ lets⟩)
    (fun n y h => ⟨y.msb, evalPure_msb_of_bv h⟩) hw

end pure

/-! ## effects -/

def writeRegVal (σ : MState) (r : RegRef) (vv : Val) : Except Stuck MState :=
  match vv, regWidthOfOpvar r.opvar with
  | .bv w x, some wr =>
      if w = wr then
        .ok { σ with new := fun k => if k == r.opvar then x.toNat else σ.new k,
                     written := fun k => if k == r.opvar then true else σ.written k }
      else .error (.sort s!"WRITE_REG width {w} to {wr}")
  | _, _ => .error (.sort "WRITE_REG")

def storeVal (σ : MState) (va vv : Val) : Except Stuck MState :=
  match va, vv with
  | .bv _ x, .bv w y => .ok { σ with mem := storeBytes σ.mem x.toNat y.toNat (w / 8), stores := x.toNat :: σ.stores }
  | _, _ => .error (.sort "STOREW")

def branchStep (ms : MacroSem) (subs : SubEnv) (fuel : Nat) (t e : ILEffect) (σ : MState) (vc : Val) : Except Stuck MState :=
  match vc with
  | .bool true => execIL ms subs fuel t σ
  | .bool false => execIL ms subs fuel e σ
  | _ => .error (.sort "BRANCH condition")

def repeatStep (ms : MacroSem) (subs : SubEnv) (fuel : Nat) (c : ILPure) (body : ILEffect) (σ : MState) (vc : Val) :
    Except Stuck MState :=
  match vc with
  | .bool true => do
      let σ' ← execIL ms subs fuel body σ
      execIL ms subs fuel (.repeat_ c body) σ'
  | .bool false => .ok σ
  | _ => .error (.sort "REPEAT condition")

def callStep (ms : MacroSem) (subs : SubEnv) (fuel : Nat) (f : String) (args : List ILPure) (σ : MState) (vs : List Val) :
    Except Stuck MState :=
  if f.startsWith "hex_" then
    match lookupS (f.drop 4).toString subs with
    | some (ps, body) => do
        let σ' ← execIL ms subs fuel body { σ with params := ps.zip vs }
        .ok { σ' with params := σ.params }
    | none => if f == "hex_set_usr_field" then setUsrFieldIL σ args vs
              else if f == "hex_get_usr_field" then getUsrFieldIL σ args else .error (.undef f)
  else if f == "HEX_STORE_SLOT_CANCELLED" then
    .ok { σ with locals := setLocal σ.locals "$slot_cancelled" (.bool true) }
  else if f == "HEX_GET_NPC" then
    .ok { σ with locals := setLocal σ.locals "ret_val" (.bv 64 (BitVec.ofNat 64 (σ.pktAddr + 4))) }
  else .error (.undef f)

section effEqns
variable (ms : MacroSem) (subs : SubEnv)

theorem execIL_zero (e σ) : execIL ms subs 0 e σ = .error .fuel := by rw [execIL]
theorem execSeq_zero (es σ) : execSeq ms subs 0 es σ = .error .fuel := by rw [execSeq]
theorem execIL_setl (fuel n v σ) : execIL ms subs (fuel+1) (.setl n v) σ =
    (evalPure ms σ [] v >>= fun vv => .ok { σ with locals := setLocal σ.locals n vv }) := by rw [execIL]
theorem execIL_writeReg (fuel c r v σ) : execIL ms subs (fuel+1) (.writeReg c r v) σ =
    (evalPure ms σ [] v >>= writeRegVal σ r) := by rw [execIL]; rfl
theorem execIL_storew (fuel a v σ) : execIL ms subs (fuel+1) (.storew a v) σ =
    (evalPure ms σ [] a >>= fun va => evalPure ms σ [] v >>= fun vv => storeVal σ va vv) := by rw [execIL]; rfl
theorem execIL_seqn (fuel es σ) : execIL ms subs (fuel+1) (.seqn es) σ = execSeq ms subs fuel es σ := by rw [execIL]
theorem execIL_branch (fuel c t e σ) : execIL ms subs (fuel+1) (.branch c t e) σ =
    (evalPure ms σ [] c >>= branchStep ms subs fuel t e σ) := by rw [execIL]; rfl
theorem execIL_repeat (fuel c body σ) : execIL ms subs (fuel+1) (.repeat_ c body) σ =
    (evalPure ms σ [] c >>= repeatStep ms subs fuel c body σ) := by rw [execIL]; rfl
theorem execIL_call (fuel f args σ) : execIL ms subs (fuel+1) (.call f args) σ =
    (evalPures ms σ [] args >>= callStep ms subs fuel f args σ) := by rw [execIL]; rfl
theorem execSeq_nil (fuel σ) : execSeq ms subs (fuel+1) [] σ = .ok σ := by rw [execSeq]
theorem execSeq_cons (fuel e es σ) : execSeq ms subs (fuel+1) (e :: es) σ =
    (execIL ms subs fuel e σ >>= fun σ' => execSeq ms subs fuel es σ') := by rw [execSeq]

end effEqns

/-- `e` and `e'` execute alike from `σ`, for every amount of fuel -/
def EEqAt (ms : MacroSem) (subs : SubEnv) (σ : MState) (e e' : ILEffect) : Prop :=
  ∀ fuel, (execIL ms subs fuel e σ).toOption = (execIL ms subs fuel e' σ).toOption

def ESeqEqAt (ms : MacroSem) (subs : SubEnv) (σ : MState) (es es' : List ILEffect) : Prop :=
  ∀ fuel, (execSeq ms subs fuel es σ).toOption = (execSeq ms subs fuel es' σ).toOption

/-- extensional equivalence of effects: alike from every state, for every fuel -/
def EEquiv (e e' : ILEffect) : Prop := ∀ ms subs σ, EEqAt ms subs σ e e'
def ESeqEquiv (es es' : List ILEffect) : Prop := ∀ ms subs σ, ESeqEqAt ms subs σ es es'

section eff
variable {ms : MacroSem} {subs : SubEnv}

theorem EEqAt.refl (σ : MState) (e : ILEffect) : EEqAt ms subs σ e e := fun _ => rfl
theorem EEqAt.symm {σ : MState} {e e' : ILEffect} (h : EEqAt ms subs σ e e') : EEqAt ms subs σ e' e := fun f => (h f).symm
theorem EEqAt.trans {σ : MState} {a b c : ILEffect} (h₁ : EEqAt ms subs σ a b) (h₂ : EEqAt ms subs σ b c) :
    EEqAt ms subs σ a c := fun f => (h₁ f).trans (h₂ f)
theorem EEquiv.refl (e : ILEffect) : EEquiv e e := fun _ _ _ _ => rfl
theorem ESeqEqAt.refl (σ : MState) (es : List ILEffect) : ESeqEqAt ms subs σ es es := fun _ => rfl

/-- the relation implies equal execution -/
theorem EEqAt.ok {σ σ' : MState} {e e' : ILEffect} (h : EEqAt ms subs σ e e') {fuel : Nat}
    (hx : execIL ms subs fuel e σ = .ok σ') : execIL ms subs fuel e' σ = .ok σ' :=
  ok_of_toOption_eq (h fuel) hx

/-! ### congruence: one lemma per constructor of `ILEffect` -/

theorem EEqAt.setl (n : String) {σ : MState} {a b : ILPure} (h : PEqAt ms σ [] a b) :
    EEqAt ms subs σ (.setl n a) (.setl n b) := by
  intro fuel
  cases fuel with
  | zero => rw [execIL_zero, execIL_zero]
  | succ f => rw [execIL_setl, execIL_setl]; exact toOption_bind_congr h (fun _ => rfl)

theorem EEqAt.writeReg (c : String) (r : RegRef) {σ : MState} {a b : ILPure} (h : PEqAt ms σ [] a b) :
    EEqAt ms subs σ (.writeReg c r a) (.writeReg c r b) := by
  intro fuel
  cases fuel with
  | zero => rw [execIL_zero, execIL_zero]
  | succ f => rw [execIL_writeReg, execIL_writeReg]; exact toOption_bind_congr h (fun _ => rfl)

theorem EEqAt.storew {σ : MState} {a a' v v' : ILPure} (ha : PEqAt ms σ [] a a') (hv : PEqAt ms σ [] v v') :
    EEqAt ms subs σ (.storew a v) (.storew a' v') := by
  intro fuel
  cases fuel with
  | zero => rw [execIL_zero, execIL_zero]
  | succ f =>
    rw [execIL_storew, execIL_storew]
    exact toOption_bind_congr ha (fun _ => toOption_bind_congr hv (fun _ => rfl))

theorem EEqAt.branch {σ : MState} {c c' : ILPure} {t t' e e' : ILEffect} (hc : PEqAt ms σ [] c c')
    (ht : EEqAt ms subs σ t t') (he : EEqAt ms subs σ e e') :
    EEqAt ms subs σ (.branch c t e) (.branch c' t' e') := by
  intro fuel
  cases fuel with
  | zero => rw [execIL_zero, execIL_zero]
  | succ f =>
    rw [execIL_branch, execIL_branch]
    refine toOption_bind_congr hc (fun vc => ?_)
    unfold branchStep
    split
    · exact ht f
    · exact he f
    · rfl

/-- a call depends on its argument list through the argument VALUES and — for the specification-level routines
    (`hex_set_usr_field`), whose field is read from the syntax of a pass-through argument — through the identifiers
    the pass-through arguments consist of (`hx`) -/
theorem EEqAt.call (f : String) {σ : MState} {as as' : List ILPure} (h : PsEqAt ms σ [] as as')
    (hx : as.map extName = as'.map extName) :
    EEqAt ms subs σ (.call f as) (.call f as') := by
  intro fuel
  cases fuel with
  | zero => rw [execIL_zero, execIL_zero]
  | succ k =>
    rw [execIL_call, execIL_call]
    refine toOption_bind_congr h (fun vs => ?_)
    simp only [callStep, setUsrFieldIL, getUsrFieldIL, hx]

theorem ESeqEqAt.cons {σ : MState} {e e' : ILEffect} {es es' : List ILEffect} (h : EEqAt ms subs σ e e')
    (hs : ∀ σ₁, ESeqEqAt ms subs σ₁ es es') : ESeqEqAt ms subs σ (e :: es) (e' :: es') := by
  intro fuel
  cases fuel with
  | zero => rw [execSeq_zero, execSeq_zero]
  | succ f =>
    rw [execSeq_cons, execSeq_cons]
    exact toOption_bind_congr (h f) (fun σ₁ => hs σ₁ f)

theorem EEqAt.seqn {σ : MState} {es es' : List ILEffect} (h : ESeqEqAt ms subs σ es es') :
    EEqAt ms subs σ (.seqn es) (.seqn es') := by
  intro fuel
  cases fuel with
  | zero => rw [execIL_zero, execIL_zero]
  | succ f => rw [execIL_seqn, execIL_seqn]; exact h f

/-- `REPEAT`: the condition and the body must be alike in every state the loop reaches; stated for all states -/
theorem EEqAt.repeat_ {c c' : ILPure} {b b' : ILEffect} (hc : ∀ σ, PEqAt ms σ [] c c')
    (hb : ∀ σ, EEqAt ms subs σ b b') (σ : MState) : EEqAt ms subs σ (.repeat_ c b) (.repeat_ c' b') := by
  intro fuel
  induction fuel generalizing σ with
  | zero => rw [execIL_zero, execIL_zero]
  | succ f ih =>
    rw [execIL_repeat, execIL_repeat]
    refine toOption_bind_congr (hc σ) (fun vc => ?_)
    unfold repeatStep
    split
    · exact toOption_bind_congr (hb σ f) (fun σ₁ => ih σ₁)
    · rfl
    · rfl

end eff

theorem ESeqEquiv.nil : ESeqEquiv [] [] := fun _ _ _ _ => rfl

theorem ESeqEquiv.cons {e e' : ILEffect} {es es' : List ILEffect} (h : EEquiv e e') (hs : ESeqEquiv es es') :
    ESeqEquiv (e :: es) (e' :: es') :=
  fun ms subs σ => ESeqEqAt.cons (h ms subs σ) (fun σ₁ => hs ms subs σ₁)

theorem EEquiv.setl (n : String) {a b : ILPure} (h : PEquiv a b) : EEquiv (.setl n a) (.setl n b) :=
  fun ms _ σ => EEqAt.setl n (h ms σ [])
theorem EEquiv.writeReg (c : String) (r : RegRef) {a b : ILPure} (h : PEquiv a b) :
    EEquiv (.writeReg c r a) (.writeReg c r b) := fun ms _ σ => EEqAt.writeReg c r (h ms σ [])
theorem EEquiv.storew {a a' v v' : ILPure} (ha : PEquiv a a') (hv : PEquiv v v') :
    EEquiv (.storew a v) (.storew a' v') := fun ms _ σ => EEqAt.storew (ha ms σ []) (hv ms σ [])
theorem EEquiv.seqn {es es' : List ILEffect} (h : ESeqEquiv es es') : EEquiv (.seqn es) (.seqn es') :=
  fun ms subs σ => EEqAt.seqn (h ms subs σ)
theorem EEquiv.branch {c c' : ILPure} {t t' e e' : ILEffect} (hc : PEquiv c c') (ht : EEquiv t t') (he : EEquiv e e') :
    EEquiv (.branch c t e) (.branch c' t' e') :=
  fun ms subs σ => EEqAt.branch (hc ms σ []) (ht ms subs σ) (he ms subs σ)
theorem EEquiv.repeat_ {c c' : ILPure} {b b' : ILEffect} (hc : PEquiv c c') (hb : EEquiv b b') :
    EEquiv (.repeat_ c b) (.repeat_ c' b') :=
  fun ms subs σ => EEqAt.repeat_ (fun σ => hc ms σ []) (fun σ => hb ms subs σ) σ
theorem EEquiv.call (f : String) {as as' : List ILPure} (h : ∀ ms σ, PsEqAt ms σ [] as as')
    (hx : as.map extName = as'.map extName) :
    EEquiv (.call f as) (.call f as') := fun ms _ σ => EEqAt.call f (h ms σ) hx

/-! ## non-vacuity -/

/-- the base lemma applies to `CAST(8, IL_FALSE, x)` / `CAST(8, MSB(x), x)` for the 32-bit `x = U32(pkt->pkt_addr)`: the
    two terms are different and equivalent in every state -/
example : PEquiv (.cast 8 .bfalse .pktAddr) (.cast 8 (.un .msb .pktAddr) .pktAddr) := by
  intro ms σ lets
  refine cast_bfalse_msb (PEqAt.refl _) ?_
  intro n y h
  rw [evalPure] at h
  simp only [Except.ok.injEq, Val.bv.injEq] at h
  omega

/-- … whereas on a widening cast the two fills give different values (`x = -1 : bv8`, `w = 16`) -/
example : ¬ PEquiv (.cast 16 .bfalse (.const true 8 (-1))) (.cast 16 (.un .msb (.const true 8 (-1))) (.const true 8 (-1))) := by
  intro h
  have := h (fun _ _ => none) default []
  unfold PEqAt at this
  rw [evalPure_cast, evalPure_cast, evalPure_un, evalPure_const, evalPure_bfalse] at this
  revert this
  decide

end Rzil
