import RzilVerif.Model.DriverText
/-!
# Reordering independent inlined declarations (used by C16)

`buildEnvIL` processes the declarations of a body left to right and builds an association list; `Term.subst`
looks a name up with `List.lookup` (first match).  Two environments that agree on every look-up (`EnvEq`) are
indistinguishable for `Term.subst` and for every further run of `buildEnvIL`.  Swapping two adjacent, mutually
independent inlined declarations yields `EnvEq` environments.
-/
namespace Rzil

mutual
/-- `t.mentions x`: the identifier `x` occurs in `t` (function heads, field names, strings are not identifiers). -/
def Term.mentions (x : String) : Term → Bool
  | .id y => y == x
  | .app _ args => mentionsList x args
  | .addr t => t.mentions x
  | .ccast _ t => t.mentions x
  | .arrow t _ => t.mentions x
  | _ => false
def mentionsList (x : String) : List Term → Bool
  | [] => false
  | t :: ts => t.mentions x || mentionsList x ts
end

abbrev Env := List (String × Term)

/-- Two environments agree on every look-up. -/
def EnvEq (e1 e2 : Env) : Prop := ∀ x, e1.lookup x = e2.lookup x

theorem EnvEq.refl (e : Env) : EnvEq e e := fun _ => rfl
theorem EnvEq.symm {e1 e2 : Env} (h : EnvEq e1 e2) : EnvEq e2 e1 := fun x => (h x).symm
theorem EnvEq.trans {e1 e2 e3 : Env} (h : EnvEq e1 e2) (h' : EnvEq e2 e3) : EnvEq e1 e3 :=
  fun x => (h x).trans (h' x)

theorem EnvEq.cons {e1 e2 : Env} (h : EnvEq e1 e2) (n : String) (v : Term) :
    EnvEq ((n, v) :: e1) ((n, v) :: e2) := by
  intro x
  simp only [List.lookup_cons]
  split
  · rfl
  · exact h x

/-- Two bindings of different names commute. -/
theorem EnvEq.swap (e : Env) {n1 n2 : String} (hne : n1 ≠ n2) (v1 v2 : Term) :
    EnvEq ((n2, v2) :: (n1, v1) :: e) ((n1, v1) :: (n2, v2) :: e) := by
  intro x
  simp only [List.lookup_cons]
  by_cases h1 : x = n1
  · subst h1
    have : (x == n2) = false := by simpa using hne
    simp [this]
  · have : (x == n1) = false := by simpa using h1
    simp [this]

mutual
/-- `subst` only depends on the look-ups. -/
theorem Term.subst_congr {e1 e2 : Env} (h : EnvEq e1 e2) : ∀ t : Term, t.subst e1 = t.subst e2
  | .id x => by simp only [Term.subst, h x]
  | .app f args => by simp only [Term.subst, substList_congr h args]
  | .addr t => by simp only [Term.subst, Term.subst_congr h t]
  | .ccast ty t => by simp only [Term.subst, Term.subst_congr h t]
  | .arrow t f => by simp only [Term.subst, Term.subst_congr h t]
  | .num _ => by simp only [Term.subst]
  | .flt _ => by simp only [Term.subst]
  | .chr _ => by simp only [Term.subst]
  | .str _ => by simp only [Term.subst]
theorem substList_congr {e1 e2 : Env} (h : EnvEq e1 e2) : ∀ ts : List Term, substList e1 ts = substList e2 ts
  | [] => by simp only [substList]
  | t :: ts => by simp only [substList, Term.subst_congr h t, substList_congr h ts]
end

mutual
/-- A binding of a name the term does not mention is irrelevant. -/
theorem Term.subst_cons_of_not_mentions (e : Env) (n : String) (v : Term) :
    ∀ t : Term, t.mentions n = false → t.subst ((n, v) :: e) = t.subst e
  | .id x, hm => by
      have hx : (x == n) = false := by simpa [Term.mentions] using hm
      simp only [Term.subst, List.lookup_cons, hx]
  | .app f args, hm => by
      simp only [Term.mentions] at hm
      simp only [Term.subst, substList_cons_of_not_mentions e n v args hm]
  | .addr t, hm => by
      simp only [Term.mentions] at hm
      simp only [Term.subst, Term.subst_cons_of_not_mentions e n v t hm]
  | .ccast ty t, hm => by
      simp only [Term.mentions] at hm
      simp only [Term.subst, Term.subst_cons_of_not_mentions e n v t hm]
  | .arrow t f, hm => by
      simp only [Term.mentions] at hm
      simp only [Term.subst, Term.subst_cons_of_not_mentions e n v t hm]
  | .num _, _ => by simp only [Term.subst]
  | .flt _, _ => by simp only [Term.subst]
  | .chr _, _ => by simp only [Term.subst]
  | .str _, _ => by simp only [Term.subst]
theorem substList_cons_of_not_mentions (e : Env) (n : String) (v : Term) :
    ∀ ts : List Term, mentionsList n ts = false → substList ((n, v) :: e) ts = substList e ts
  | [], _ => by simp only [substList]
  | t :: ts, hm => by
      simp only [mentionsList, Bool.or_eq_false_iff] at hm
      simp only [substList, Term.subst_cons_of_not_mentions e n v t hm.1,
        substList_cons_of_not_mentions e n v ts hm.2]
end

/-- Is a declaration of this type inlined by `buildEnvIL`? -/
def isILTy (ty : String) : Bool := ty == "RzILOpPure *" || ty == "RzILOpEffect *" || ty == "RzILOpBool *"

theorem buildEnvIL_decl (ty n : String) (rhs : Term) (rest : List Item) (env : Env) :
    buildEnvIL (Item.decl ty n rhs :: rest) env =
      if isILTy ty then buildEnvIL rest ((n, rhs.subst env) :: env) else buildEnvIL rest env := rfl

theorem buildEnvIL_decl_il {ty : String} (h : isILTy ty = true) (n : String) (rhs : Term) (rest : List Item) (env : Env) :
    buildEnvIL (Item.decl ty n rhs :: rest) env = buildEnvIL rest ((n, rhs.subst env) :: env) := by
  rw [buildEnvIL_decl, if_pos h]

theorem buildEnvIL_decl_not {ty : String} (h : isILTy ty = false) (n : String) (rhs : Term) (rest : List Item) (env : Env) :
    buildEnvIL (Item.decl ty n rhs :: rest) env = buildEnvIL rest env := by
  rw [buildEnvIL_decl, h]; rfl

theorem buildEnvIL_nil (env : Env) : buildEnvIL [] env = env := rfl

theorem buildEnvIL_app (xs ys : List Item) (env : Env) :
    buildEnvIL (xs ++ ys) env = buildEnvIL ys (buildEnvIL xs env) := by
  induction xs generalizing env with
  | nil => rfl
  | cons x xs ih =>
    cases x with
    | comment s => simp [buildEnvIL, ih]
    | ret t => simp [buildEnvIL, ih]
    | decl ty name rhs =>
      simp only [List.cons_append, buildEnvIL]
      split <;> exact ih _

/-- Running the same declarations from look-up-equal environments gives look-up-equal environments. -/
theorem buildEnvIL_congr (items : List Item) {e1 e2 : Env} (h : EnvEq e1 e2) :
    EnvEq (buildEnvIL items e1) (buildEnvIL items e2) := by
  induction items generalizing e1 e2 with
  | nil => exact h
  | cons x xs ih =>
    cases x with
    | comment s => simpa [buildEnvIL] using ih h
    | ret t => simpa [buildEnvIL] using ih h
    | decl ty name rhs =>
      rw [buildEnvIL_decl, buildEnvIL_decl]
      split
      · rw [Term.subst_congr h rhs]; exact ih (h.cons _ _)
      · exact ih h

/-- Two inlined declarations are independent: different names, neither right-hand side mentions the other's name. -/
def indep (n1 : String) (rhs1 : Term) (n2 : String) (rhs2 : Term) : Bool :=
  n1 != n2 && !rhs2.mentions n1 && !rhs1.mentions n2

/-- Core step: the environment after two adjacent independent inlined declarations does not depend on their order
    (up to look-up equality). -/
theorem buildEnvIL_swap_env (ty1 n1 : String) (rhs1 : Term) (ty2 n2 : String) (rhs2 : Term)
    (h1 : isILTy ty1 = true) (h2 : isILTy ty2 = true) (hi : indep n1 rhs1 n2 rhs2 = true) (env : Env) :
    EnvEq (buildEnvIL [Item.decl ty1 n1 rhs1, Item.decl ty2 n2 rhs2] env)
          (buildEnvIL [Item.decl ty2 n2 rhs2, Item.decl ty1 n1 rhs1] env) := by
  simp only [indep, Bool.and_eq_true, bne_iff_ne, Bool.not_eq_true', ne_eq] at hi
  obtain ⟨⟨hne, hm2⟩, hm1⟩ := hi
  rw [buildEnvIL_decl_il h1, buildEnvIL_decl_il h2, buildEnvIL_decl_il h2, buildEnvIL_decl_il h1,
    buildEnvIL_nil, buildEnvIL_nil]
  rw [Term.subst_cons_of_not_mentions env n1 _ rhs2 hm2, Term.subst_cons_of_not_mentions env n2 _ rhs1 hm1]
  exact EnvEq.swap env hne _ _

/-- The composable form: swapping two adjacent independent inlined declarations anywhere in a list does not change
    what any term looked up afterwards is replaced by. -/
theorem buildEnvIL_swap (pre post : List Item) (ty1 n1 : String) (rhs1 : Term) (ty2 n2 : String) (rhs2 : Term)
    (h1 : isILTy ty1 = true) (h2 : isILTy ty2 = true) (hi : indep n1 rhs1 n2 rhs2 = true) (env : Env) :
    EnvEq (buildEnvIL (pre ++ Item.decl ty1 n1 rhs1 :: Item.decl ty2 n2 rhs2 :: post) env)
          (buildEnvIL (pre ++ Item.decl ty2 n2 rhs2 :: Item.decl ty1 n1 rhs1 :: post) env) := by
  have e : ∀ (a b : Item), pre ++ a :: b :: post = pre ++ ([a, b] ++ post) := fun _ _ => rfl
  rw [e, e, buildEnvIL_app, buildEnvIL_app, buildEnvIL_app, buildEnvIL_app]
  exact buildEnvIL_congr post (buildEnvIL_swap_env ty1 n1 rhs1 ty2 n2 rhs2 h1 h2 hi _)

theorem subst_buildEnvIL_swap (pre post : List Item) (ty1 n1 : String) (rhs1 : Term) (ty2 n2 : String) (rhs2 : Term)
    (h1 : isILTy ty1 = true) (h2 : isILTy ty2 = true) (hi : indep n1 rhs1 n2 rhs2 = true) (env : Env) (t : Term) :
    t.subst (buildEnvIL (pre ++ Item.decl ty1 n1 rhs1 :: Item.decl ty2 n2 rhs2 :: post) env) =
    t.subst (buildEnvIL (pre ++ Item.decl ty2 n2 rhs2 :: Item.decl ty1 n1 rhs1 :: post) env) :=
  Term.subst_congr (buildEnvIL_swap pre post ty1 n1 rhs1 ty2 n2 rhs2 h1 h2 hi env) t

/-! ### Hoisting the pure declarations in front (stable partition) -/

/-- Declaration types of the "EXEC" class: pure and bool values. -/
def isPureTy (ty : String) : Bool := ty == "RzILOpPure *" || ty == "RzILOpBool *"

theorem isILTy_of_isPureTy {ty : String} (h : isPureTy ty = true) : isILTy ty = true := by
  simp only [isPureTy, Bool.or_eq_true] at h
  simp only [isILTy, Bool.or_eq_true]
  rcases h with h | h
  · exact Or.inl (Or.inl h)
  · exact Or.inr h

/-- An inlined PURE/BOOL declaration. -/
def Item.isPureDecl : Item → Bool
  | .decl ty _ _ => isPureTy ty
  | _ => false

/-- EXEC_CLASSES order of a READ_STATEMENTS list: all inlined pure/bool declarations in their order, then every
    other item (effect declarations, operand declarations, comments, the return) in their order. -/
def hoistPures (items : List Item) : List Item :=
  items.filter Item.isPureDecl ++ items.filter (fun i => !i.isPureDecl)

/-- `x` (any item) may be moved to the right over the pure declaration `p`: either `x` is not inlined at all, or the
    two are independent inlined declarations. -/
def Item.indepOf (x p : Item) : Bool :=
  match x, p with
  | .decl tyx m rhsx, .decl _ n rhs => if isILTy tyx then indep n rhs m rhsx else true
  | _, _ => true

/-- The minimal condition under which hoisting is sound: every non-pure item is independent of every pure
    declaration that FOLLOWS it (those are the ones that jump over it). -/
def LayoutIndep : List Item → Bool
  | [] => true
  | x :: rest =>
    (x.isPureDecl || (rest.filter Item.isPureDecl).all (fun p => x.indepOf p)) && LayoutIndep rest

theorem buildEnvIL_cons_congr (x : Item) {l1 l2 : List Item}
    (h : ∀ env, EnvEq (buildEnvIL l1 env) (buildEnvIL l2 env)) (env : Env) :
    EnvEq (buildEnvIL (x :: l1) env) (buildEnvIL (x :: l2) env) := by
  cases x with
  | comment s => simpa [buildEnvIL] using h env
  | ret t => simpa [buildEnvIL] using h env
  | decl ty n rhs =>
    rw [buildEnvIL_decl, buildEnvIL_decl]
    split
    · exact h _
    · exact h _

/-- Moving one item to the left over a block of pure declarations it is independent of. -/
theorem buildEnvIL_move (ps : List Item) (x : Item) (tail : List Item)
    (hps : ∀ p ∈ ps, Item.isPureDecl p = true) (hx : ∀ p ∈ ps, x.indepOf p = true) (env : Env) :
    EnvEq (buildEnvIL (ps ++ x :: tail) env) (buildEnvIL (x :: (ps ++ tail)) env) := by
  induction ps generalizing env with
  | nil => exact EnvEq.refl _
  | cons p ps ih =>
    have hp := hps p (List.mem_cons_self)
    have hxp := hx p (List.mem_cons_self)
    have ih' := fun env => ih (fun q hq => hps q (List.mem_cons_of_mem _ hq))
      (fun q hq => hx q (List.mem_cons_of_mem _ hq)) env
    cases p with
    | comment s => simp [Item.isPureDecl] at hp
    | ret t => simp [Item.isPureDecl] at hp
    | decl ty n rhs =>
      simp only [Item.isPureDecl] at hp
      have hil := isILTy_of_isPureTy hp
      -- first use the induction hypothesis behind `p`
      refine EnvEq.trans (buildEnvIL_cons_congr (Item.decl ty n rhs) ih' env) ?_
      cases x with
      | comment s => exact EnvEq.refl _
      | ret t => exact EnvEq.refl _
      | decl tyx m rhsx =>
        by_cases hxil : isILTy tyx = true
        · simp only [Item.indepOf, hxil, if_true] at hxp
          exact buildEnvIL_swap [] (ps ++ tail) ty n rhs tyx m rhsx hil hxil hxp env
        · have hxil' : isILTy tyx = false := by simpa using hxil
          rw [List.cons_append, buildEnvIL_decl_il hil, buildEnvIL_decl_not hxil', buildEnvIL_decl_not hxil',
            buildEnvIL_decl_il hil]
          exact EnvEq.refl _

theorem hoistPures_cons_pure {x : Item} (h : x.isPureDecl = true) (rest : List Item) :
    hoistPures (x :: rest) = x :: hoistPures rest := by
  simp [hoistPures, h]

theorem hoistPures_cons_other {x : Item} (h : x.isPureDecl = false) (rest : List Item) :
    hoistPures (x :: rest) = rest.filter Item.isPureDecl ++ x :: rest.filter (fun i => !i.isPureDecl) := by
  simp [hoistPures, h]

/-- Hoisting the pure declarations yields a look-up-equal environment. -/
theorem buildEnvIL_hoist (items : List Item) (h : LayoutIndep items = true) (env : Env) :
    EnvEq (buildEnvIL (hoistPures items) env) (buildEnvIL items env) := by
  induction items generalizing env with
  | nil => exact EnvEq.refl _
  | cons x rest ih =>
    simp only [LayoutIndep, Bool.and_eq_true, Bool.or_eq_true] at h
    obtain ⟨hx, hrest⟩ := h
    by_cases hp : x.isPureDecl = true
    · rw [hoistPures_cons_pure hp]
      exact buildEnvIL_cons_congr x (fun env => ih hrest env) env
    · have hp' : x.isPureDecl = false := by simpa using hp
      rw [hoistPures_cons_other hp']
      have hall : ∀ p ∈ rest.filter Item.isPureDecl, x.indepOf p = true := by
        rcases hx with hx | hx
        · exact absurd hx hp
        · exact fun p hp => List.all_eq_true.1 hx p hp
      refine EnvEq.trans (buildEnvIL_move _ x _ (fun p hp => (List.mem_filter.1 hp).2) hall env) ?_
      exact buildEnvIL_cons_congr x (fun env => ih hrest env) env

theorem returned_pures_append (ps l : List Item) (hps : ∀ p ∈ ps, Item.isPureDecl p = true) :
    returned (ps ++ l) = returned l := by
  induction ps with
  | nil => rfl
  | cons p ps ih =>
    have hp := hps p (List.mem_cons_self)
    cases p with
    | comment s => simp [Item.isPureDecl] at hp
    | ret t => simp [Item.isPureDecl] at hp
    | decl ty n rhs =>
      simp only [List.cons_append, returned]
      exact ih (fun q hq => hps q (List.mem_cons_of_mem _ hq))

theorem returned_filter_others (items : List Item) :
    returned (items.filter (fun i => !i.isPureDecl)) = returned items := by
  induction items with
  | nil => rfl
  | cons x rest ih =>
    by_cases hp : x.isPureDecl = true
    · rw [List.filter_cons_of_neg (by simp [hp]), ih]
      cases x with
      | comment s => simp [Item.isPureDecl] at hp
      | ret t => simp [Item.isPureDecl] at hp
      | decl ty n rhs => rfl
    · rw [List.filter_cons_of_pos (by simpa using hp)]
      cases x with
      | comment s => exact ih
      | ret t => rfl
      | decl ty n rhs => exact ih

theorem returned_hoistPures (items : List Item) : returned (hoistPures items) = returned items := by
  rw [hoistPures, returned_pures_append _ _ (fun p hp => (List.mem_filter.1 hp).2), returned_filter_others]

/-! ### A readable sufficient condition -/

/-- A declaration that `buildEnvIL` inlines (pure, bool or effect). -/
def Item.isILDecl : Item → Bool
  | .decl ty _ _ => isILTy ty
  | _ => false

/-- An inlined declaration of the "WRITE" class (effect). -/
def Item.isEffDecl : Item → Bool
  | .decl ty _ _ => isILTy ty && !isPureTy ty
  | _ => false

def Item.name : Item → String
  | .decl _ n _ => n
  | _ => ""

def Item.rhs : Item → Term
  | .decl _ _ r => r
  | .ret t => t
  | _ => .num 0

/-- The names of the inlined declarations are pairwise distinct. -/
def namesDistinct : List Item → Bool
  | [] => true
  | x :: rest =>
    (!x.isILDecl || (rest.filter Item.isILDecl).all (fun d => d.name != x.name)) && namesDistinct rest

/-- No inlined declaration's right-hand side mentions a name that an inlined declaration LATER in the list declares
    (every mentioned name is declared earlier, or not at all: an operand, a parameter, `bundle`, …). -/
def noForwardRef : List Item → Bool
  | [] => true
  | x :: rest =>
    (!x.isILDecl || (rest.filter Item.isILDecl).all (fun d => !x.rhs.mentions d.name)) && noForwardRef rest

/-- No pure/bool declaration's right-hand side mentions a name declared by an effect declaration anywhere in the list. -/
def puresAvoidEffects (items : List Item) : Bool :=
  (items.filter Item.isPureDecl).all (fun p => (items.filter Item.isEffDecl).all (fun e => !p.rhs.mentions e.name))

/-- The decidable side condition of the layout theorem. -/
def LayoutWF (items : List Item) : Bool :=
  namesDistinct items && noForwardRef items && puresAvoidEffects items

theorem Item.isILDecl_of_isPureDecl {p : Item} (h : p.isPureDecl = true) : p.isILDecl = true := by
  cases p with
  | comment s => simp [Item.isPureDecl] at h
  | ret t => simp [Item.isPureDecl] at h
  | decl ty n rhs => exact isILTy_of_isPureTy h

theorem layoutIndep_of_parts (items : List Item) (hnd : namesDistinct items = true) (hfw : noForwardRef items = true)
    (hpe : ∀ p ∈ items, p.isPureDecl = true → ∀ e ∈ items, e.isEffDecl = true → p.rhs.mentions e.name = false) :
    LayoutIndep items = true := by
  induction items with
  | nil => rfl
  | cons x rest ih =>
    simp only [namesDistinct, Bool.and_eq_true, Bool.or_eq_true, Bool.not_eq_true'] at hnd
    simp only [noForwardRef, Bool.and_eq_true, Bool.or_eq_true, Bool.not_eq_true'] at hfw
    have ihr := ih hnd.2 hfw.2 (fun p hp hpp e he hee =>
      hpe p (List.mem_cons_of_mem _ hp) hpp e (List.mem_cons_of_mem _ he) hee)
    simp only [LayoutIndep, Bool.and_eq_true, Bool.or_eq_true]
    refine ⟨?_, ihr⟩
    by_cases hxp : x.isPureDecl = true
    · exact Or.inl hxp
    · refine Or.inr (List.all_eq_true.2 ?_)
      intro p hp
      obtain ⟨hpm, hpp⟩ := List.mem_filter.1 hp
      have hpil := Item.isILDecl_of_isPureDecl hpp
      cases x with
      | comment s => rfl
      | ret t => rfl
      | decl tyx m rhsx =>
        cases p with
        | comment s => rfl
        | ret t => rfl
        | decl ty n rhs =>
          simp only [Item.indepOf]
          split
          · rename_i hxil
            have hxil' : (Item.decl tyx m rhsx).isILDecl = true := hxil
            have h1 : (rest.filter Item.isILDecl).all (fun d => d.name != (Item.decl tyx m rhsx).name) = true := by
              rcases hnd.1 with h | h
              · rw [hxil'] at h; cases h
              · exact h
            have h2 : (rest.filter Item.isILDecl).all
                (fun d => !(Item.decl tyx m rhsx).rhs.mentions d.name) = true := by
              rcases hfw.1 with h | h
              · rw [hxil'] at h; cases h
              · exact h
            have hmem : Item.decl ty n rhs ∈ rest.filter Item.isILDecl := List.mem_filter.2 ⟨hpm, hpil⟩
            have a1 := List.all_eq_true.1 h1 _ hmem
            have a2 := List.all_eq_true.1 h2 _ hmem
            have hxe : (Item.decl tyx m rhsx).isEffDecl = true := by
              have : isPureTy tyx = false := by simpa [Item.isPureDecl] using hxp
              simp [Item.isEffDecl, hxil, this]
            have a3 := hpe _ (List.mem_cons_of_mem _ hpm) hpp _ List.mem_cons_self hxe
            simp only [Item.name, Item.rhs] at a1 a2 a3
            simp only [indep, Bool.and_eq_true, Bool.not_eq_true']
            simp only [Bool.not_eq_true'] at a2
            exact ⟨⟨a1, a2⟩, a3⟩
          · rfl

theorem layoutIndep_of_layoutWF (items : List Item) (h : LayoutWF items = true) : LayoutIndep items = true := by
  simp only [LayoutWF, Bool.and_eq_true] at h
  obtain ⟨⟨hnd, hfw⟩, hpe⟩ := h
  refine layoutIndep_of_parts items hnd hfw ?_
  intro p hp hpp e he hee
  have := List.all_eq_true.1 (List.all_eq_true.1 hpe p (List.mem_filter.2 ⟨hp, hpp⟩)) e (List.mem_filter.2 ⟨he, hee⟩)
  simpa using this

/-! ### Comparing a hoisted READ_STATEMENTS list with an EXEC_CLASSES list (used by the driver request `layout-rel`)

`Term` only derives `BEq`; the comparison below is a separate structural equality test with a soundness proof, so
that a positive answer of the driver is a premise of `layout_rel_sound` (Props/C16.lean). -/

mutual
def Term.eqb : Term → Term → Bool
  | .id a, .id b => a == b
  | .num a, .num b => a == b
  | .flt a, .flt b => a == b
  | .chr a, .chr b => a == b
  | .str a, .str b => a == b
  | .app f as, .app g bs => f == g && eqbList as bs
  | .addr a, .addr b => a.eqb b
  | .ccast s a, .ccast t b => s == t && a.eqb b
  | .arrow a f, .arrow b g => a.eqb b && f == g
  | _, _ => false
def eqbList : List Term → List Term → Bool
  | [], [] => true
  | a :: as, b :: bs => a.eqb b && eqbList as bs
  | _, _ => false
end

mutual
theorem Term.eqb_sound : ∀ (t u : Term), t.eqb u = true → t = u
  | .id a, u, h => by cases u <;> simp_all [Term.eqb]
  | .num a, u, h => by cases u <;> simp_all [Term.eqb]
  | .flt a, u, h => by cases u <;> simp_all [Term.eqb]
  | .chr a, u, h => by cases u <;> simp_all [Term.eqb]
  | .str a, u, h => by cases u <;> simp_all [Term.eqb]
  | .app f as, u, h => by
      cases u with
      | app g bs =>
        simp only [Term.eqb, Bool.and_eq_true, beq_iff_eq] at h
        rw [h.1, eqbList_sound as bs h.2]
      | _ => simp [Term.eqb] at h
  | .addr a, u, h => by
      cases u with
      | addr b =>
        simp only [Term.eqb] at h
        rw [Term.eqb_sound a b h]
      | _ => simp [Term.eqb] at h
  | .ccast s a, u, h => by
      cases u with
      | ccast t b =>
        simp only [Term.eqb, Bool.and_eq_true, beq_iff_eq] at h
        rw [h.1, Term.eqb_sound a b h.2]
      | _ => simp [Term.eqb] at h
  | .arrow a f, u, h => by
      cases u with
      | arrow b g =>
        simp only [Term.eqb, Bool.and_eq_true, beq_iff_eq] at h
        rw [h.2, Term.eqb_sound a b h.1]
      | _ => simp [Term.eqb] at h
theorem eqbList_sound : ∀ (ts us : List Term), eqbList ts us = true → ts = us
  | [], us, h => by cases us <;> simp_all [eqbList]
  | a :: as, us, h => by
      cases us with
      | nil => simp [eqbList] at h
      | cons b bs =>
        simp only [eqbList, Bool.and_eq_true] at h
        rw [Term.eqb_sound a b h.1, eqbList_sound as bs h.2]
end

mutual
theorem Term.eqb_refl : ∀ t : Term, t.eqb t = true
  | .id a => by simp [Term.eqb]
  | .num a => by simp [Term.eqb]
  | .flt a => by simp [Term.eqb]
  | .chr a => by simp [Term.eqb]
  | .str a => by simp [Term.eqb]
  | .app f as => by simp [Term.eqb, eqbList_refl as]
  | .addr a => by simp [Term.eqb, Term.eqb_refl a]
  | .ccast s a => by simp [Term.eqb, Term.eqb_refl a]
  | .arrow a f => by simp [Term.eqb, Term.eqb_refl a]
theorem eqbList_refl : ∀ ts : List Term, eqbList ts ts = true
  | [] => by simp [eqbList]
  | a :: as => by simp [eqbList, Term.eqb_refl a, eqbList_refl as]
end

/-- The inlined declarations of an item list, in order. -/
def ilDecls : List Item → List (String × String × Term)
  | [] => []
  | .decl ty n rhs :: rest => if isILTy ty then (ty, n, rhs) :: ilDecls rest else ilDecls rest
  | _ :: rest => ilDecls rest

def declsEqb : List (String × String × Term) → List (String × String × Term) → Bool
  | [], [] => true
  | (ty, n, r) :: as, (ty', n', r') :: bs => ty == ty' && n == n' && r.eqb r' && declsEqb as bs
  | _, _ => false

theorem declsEqb_sound : ∀ (as bs : List (String × String × Term)), declsEqb as bs = true → as = bs
  | [], bs, h => by cases bs <;> simp_all [declsEqb]
  | (ty, n, r) :: as, bs, h => by
      cases bs with
      | nil => simp [declsEqb] at h
      | cons b bs =>
        obtain ⟨ty', n', r'⟩ := b
        simp only [declsEqb, Bool.and_eq_true, beq_iff_eq] at h
        rw [h.1.1.1, h.1.1.2, Term.eqb_sound r r' h.1.2, declsEqb_sound as bs h.2]

theorem declsEqb_refl : ∀ as : List (String × String × Term), declsEqb as as = true
  | [] => rfl
  | (ty, n, r) :: as => by simp [declsEqb, Term.eqb_refl r, declsEqb_refl as]

def optTermEqb : Option Term → Option Term → Bool
  | none, none => true
  | some a, some b => a.eqb b
  | _, _ => false

theorem optTermEqb_sound (a b : Option Term) (h : optTermEqb a b = true) : a = b := by
  cases a <;> cases b <;> simp_all [optTermEqb]
  exact Term.eqb_sound _ _ h

/-- The EXEC_CLASSES items are the hoisted READ_STATEMENTS items, as far as `denoteIL` can see: same inlined
    declarations in the same order, same returned term. -/
def hoistEqual (rs ec : List Item) : Bool :=
  declsEqb (ilDecls (hoistPures rs)) (ilDecls ec) && optTermEqb (returned (hoistPures rs)) (returned ec)

/-- `buildEnvIL` only sees the inlined declarations. -/
def envOfDecls : List (String × String × Term) → Env → Env
  | [], env => env
  | (_, n, rhs) :: rest, env => envOfDecls rest ((n, rhs.subst env) :: env)

theorem buildEnvIL_eq_envOfDecls (items : List Item) (env : Env) :
    buildEnvIL items env = envOfDecls (ilDecls items) env := by
  induction items generalizing env with
  | nil => rfl
  | cons x rest ih =>
    cases x with
    | comment s => exact ih env
    | ret t => exact ih env
    | decl ty n rhs =>
      rw [buildEnvIL_decl]
      simp only [ilDecls]
      split
      · exact ih _
      · exact ih _

end Rzil
