import RzilVerif.Model.DriverText
/-!
# Reordering independent inlined declarations (used by C16)

`buildEnvIL` processes the declarations of a body left to right and builds an association list; `Term.subst`
looks a name up with `List.lookup` (first match).  Two environments that agree on every look-up (`EnvEq`) are
indistinguishable for `Term.subst` and for every further run of `buildEnvIL`.  Swapping two adjacent, mutually
independent inlined declarations yields `EnvEq` environments.
-/
namespace Rzil

mutual
/-- `t.mentions x`: the identifier `x` occurs in `t` (function heads, field names, strings are not identifiers). -/
def Term.mentions (x : String) : Term → Bool
  | .id y => y == x
  | .app _ args => mentionsList x args
  | .addr t => t.mentions x
  | .ccast _ t => t.mentions x
  | .arrow t _ => t.mentions x
  | _ => false
def mentionsList (x : String) : List Term → Bool
  | [] => false
  | t :: ts => t.mentions x || mentionsList x ts
end

abbrev Env := List (String × Term)

/-- Two environments agree on every look-up. -/
def EnvEq (e1 e2 : Env) : Prop := ∀ x, e1.lookup x = e2.lookup x

theorem EnvEq.refl (e : Env) : EnvEq e e := fun _ => rfl
theorem EnvEq.symm {e1 e2 : Env} (h : EnvEq e1 e2) : EnvEq e2 e1 := fun x => (h x).symm
theorem EnvEq.trans {e1 e2 e3 : Env} (h : EnvEq e1 e2) (h' : EnvEq e2 e3) : EnvEq e1 e3 :=
  fun x => (h x).trans (h' x)

theorem EnvEq.cons {e1 e2 : Env} (h : EnvEq e1 e2) (n : String) (v : Term) :
    EnvEq ((n, v) :: e1) ((n, v) :: e2) := by
  intro x
  simp only [List.lookup_cons]
  split
  · rfl
  · exact h x

/-- Two bindings of different names commute. -/
theorem EnvEq.swap (e : Env) {n1 n2 : String} (hne : n1 ≠ n2) (v1 v2 : Term) :
    EnvEq ((n2, v2) :: (n1, v1) :: e) ((n1, v1) :: (n2, v2) :: e) := by
  intro x
  simp only [List.lookup_cons]
  by_cases h1 : x = n1
  · subst h1
    have : (x == n2) = false := by simpa using hne
    simp [this]
  · have : (x == n1) = false := by simpa using h1
    simp [this]

mutual
/-- `subst` only depends on the look-ups. -/
theorem Term.subst_congr {e1 e2 : Env} (h : EnvEq e1 e2) : ∀ t : Term, t.subst e1 = t.subst e2
  | .id x => by simp only [Term.subst, h x]
  | .app f args => by simp only [Term.subst, substList_congr h args]
  | .addr t => by simp only [Term.subst, Term.subst_congr h t]
  | .ccast ty t => by simp only [Term.subst, Term.subst_congr h t]
  | .arrow t f => by simp only [Term.subst, Term.subst_congr h t]
  | .num _ => by simp only [Term.subst]
  | .flt _ => by simp only [Term.subst]
  | .chr _ => by simp only [Term.subst]
  | .str _ => by simp only [Term.subst]
theorem substList_congr {e1 e2 : Env} (h : EnvEq e1 e2) : ∀ ts : List Term, substList e1 ts = substList e2 ts
  | [] => by simp only [substList]
  | t :: ts => by simp only [substList, Term.subst_congr h t, substList_congr h ts]
end

mutual
/-- A binding of a name the term does not mention is irrelevant. -/
theorem Term.subst_cons_of_not_mentions (e : Env) (n : String) (v : Term) :
    ∀ t : Term, t.mentions n = false → t.subst ((n, v) :: e) = t.subst e
  | .id x, hm => by
      have hx : (x == n) = false := by simpa [Term.mentions] using hm
      simp only [Term.subst, List.lookup_cons, hx]
  | .app f args, hm => by
      simp only [Term.mentions] at hm
      simp only [Term.subst, substList_cons_of_not_mentions e n v args hm]
  | .addr t, hm => by
      simp only [Term.mentions] at hm
      simp only [Term.subst, Term.subst_cons_of_not_mentions e n v t hm]
  | .ccast ty t, hm => by
      simp only [Term.mentions] at hm
      simp only [Term.subst, Term.subst_cons_of_not_mentions e n v t hm]
  | .arrow t f, hm => by
      simp only [Term.mentions] at hm
      simp only [Term.subst, Term.subst_cons_of_not_mentions e n v t hm]
  | .num _, _ => by simp only [Term.subst]
  | .flt _, _ => by simp only [Term.subst]
  | .chr _, _ => by simp only [Term.subst]
  | .str _, _ => by simp only [Term.subst]
theorem substList_cons_of_not_mentions (e : Env) (n : String) (v : Term) :
    ∀ ts : List Term, mentionsList n ts = false → substList ((n, v) :: e) ts = substList e ts
  | [], _ => by simp only [substList]
  | t :: ts, hm => by
      simp only [mentionsList, Bool.or_eq_false_iff] at hm
      simp only [substList, Term.subst_cons_of_not_mentions e n v t hm.1,
        substList_cons_of_not_mentions e n v ts hm.2]
end

/-- Is a declaration of this type inlined by `buildEnvIL`? -/
def isILTy (ty : String) : Bool := ty == "RzILOpPure *" || ty == "RzILOpEffect *" || ty == "RzILOpBool *"

theorem buildEnvIL_decl (ty n : String) (rhs : Term) (rest : List Item) (env : Env) :
    buildEnvIL (Item.decl ty n rhs :: rest) env =
      if isILTy ty then buildEnvIL rest ((n, rhs.subst env) :: env) else buildEnvIL rest env := rfl

theorem buildEnvIL_decl_il {ty : String} (h : isILTy ty = true) (n : String) (rhs : Term) (rest : List Item) (env : Env) :
    buildEnvIL (Item.decl ty n rhs :: rest) env = buildEnvIL rest ((n, rhs.subst env) :: env) := by
  rw [buildEnvIL_decl, if_pos h]

theorem buildEnvIL_decl_not {ty : String} (h : isILTy ty = false) (n : String) (rhs : Term) (rest : List Item) (env : Env) :
    buildEnvIL (Item.decl ty n rhs :: rest) env = buildEnvIL rest env := by
  rw [buildEnvIL_decl, h]; rfl

theorem buildEnvIL_nil (env : Env) : buildEnvIL [] env = env := rfl

theorem buildEnvIL_app (xs ys : List Item) (env : Env) :
    buildEnvIL (xs ++ ys) env = buildEnvIL ys (buildEnvIL xs env) := by
  induction xs generalizing env with
  | nil => rfl
  | cons x xs ih =>
    cases x with
    | comment s => simp [buildEnvIL, ih]
    | ret t => simp [buildEnvIL, ih]
    | decl ty name rhs =>
      simp only [List.cons_append, buildEnvIL]
      split <;> exact ih _

/-- Running the same declarations from look-up-equal environments gives look-up-equal environments. -/
theorem buildEnvIL_congr (items : List Item) {e1 e2 : Env} (h : EnvEq e1 e2) :
    EnvEq (buildEnvIL items e1) (buildEnvIL items e2) := by
  induction items generalizing e1 e2 with
  | nil => exact h
  | cons x xs ih =>
    cases x with
    | comment s => simpa [buildEnvIL] using ih h
    | ret t => simpa [buildEnvIL] using ih h
    | decl ty name rhs =>
      rw [buildEnvIL_decl, buildEnvIL_decl]
      split
      · rw [Term.subst_congr h rhs]; exact ih (h.cons _ _)
      · exact ih h

/-- Two inlined declarations are independent: different names, neither right-hand side mentions the other's name. -/
def indep (n1 : String) (rhs1 : Term) (n2 : String) (rhs2 : Term) : Bool :=
  n1 != n2 && !rhs2.mentions n1 && !rhs1.mentions n2

/-- Core step: the environment after two adjacent independent inlined declarations does not depend on their order
    (up to look-up equality). -/
theorem buildEnvIL_swap_env (ty1 n1 : String) (rhs1 : Term) (ty2 n2 : String) (rhs2 : Term)
    (h1 : isILTy ty1 = true) (h2 : isILTy ty2 = true) (hi : indep n1 rhs1 n2 rhs2 = true) (env : Env) :
    EnvEq (buildEnvIL [Item.decl ty1 n1 rhs1, Item.decl ty2 n2 rhs2] env)
          (buildEnvIL [Item.decl ty2 n2 rhs2, Item.decl ty1 n1 rhs1] env) := by
  simp only [indep, Bool.and_eq_true, bne_iff_ne, Bool.not_eq_true', ne_eq] at hi
  obtain ⟨⟨hne, hm2⟩, hm1⟩ := hi
  rw [buildEnvIL_decl_il h1, buildEnvIL_decl_il h2, buildEnvIL_decl_il h2, buildEnvIL_decl_il h1,
    buildEnvIL_nil, buildEnvIL_nil]
  rw [Term.subst_cons_of_not_mentions env n1 _ rhs2 hm2, Term.subst_cons_of_not_mentions env n2 _ rhs1 hm1]
  exact EnvEq.swap env hne _ _

/-- The composable form: swapping two adjacent independent inlined declarations anywhere in a list does not change
    what any term looked up afterwards is replaced by. -/
theorem buildEnvIL_swap (pre post : List Item) (ty1 n1 : String) (rhs1 : Term) (ty2 n2 : String) (rhs2 : Term)
    (h1 : isILTy ty1 = true) (h2 : isILTy ty2 = true) (hi : indep n1 rhs1 n2 rhs2 = true) (env : Env) :
    EnvEq (buildEnvIL (pre ++ Item.decl ty1 n1 rhs1 :: Item.decl ty2 n2 rhs2 :: post) env)
          (buildEnvIL (pre ++ Item.decl ty2 n2 rhs2 :: Item.decl ty1 n1 rhs1 :: post) env) := by
  have e : ∀ (a b : Item), pre ++ a :: b :: post = pre ++ ([a, b] ++ post) := fun _ _ => rfl
  rw [e, e, buildEnvIL_app, buildEnvIL_app, buildEnvIL_app, buildEnvIL_app]
  exact buildEnvIL_congr post (buildEnvIL_swap_env ty1 n1 rhs1 ty2 n2 rhs2 h1 h2 hi _)

theorem subst_buildEnvIL_swap (pre post : List Item) (ty1 n1 : String) (rhs1 : Term) (ty2 n2 : String) (rhs2 : Term)
    (h1 : isILTy ty1 = true) (h2 : isILTy ty2 = true) (hi : indep n1 rhs1 n2 rhs2 = true) (env : Env) (t : Term) :
    t.subst (buildEnvIL (pre ++ Item.decl ty1 n1 rhs1 :: Item.decl ty2 n2 rhs2 :: post) env) =
    t.subst (buildEnvIL (pre ++ Item.decl ty2 n2 rhs2 :: Item.decl ty1 n1 rhs1 :: post) env) :=
  Term.subst_congr (buildEnvIL_swap pre post ty1 n1 rhs1 ty2 n2 rhs2 h1 h2 hi env) t

end Rzil
