import RzilVerif.Lemmas.StmtConv
import RzilVerif.Lemmas.ExprImm
/-!
  C05 helpers, part 4: one lemma per statement form (non-recursive forms).
-/
namespace Rzil
namespace C05

/-- The well-formedness `WF` of the expression theorem holds for the listed expressions in every
    typed state (`SInv`) whose immediate locals hold the state's immediates (`ImmsCur`) and in which the expression
    has a C value.  (The simulation applies it to the IL-side state seen with the C side's current immediates.) -/
def WFHyp (ms : MacroSem) (WF : MState → CExpr → Prop) (c : Ctx) (es : List CExpr) : Prop :=
  ∀ e ∈ es, ∀ σ vC, SInv c σ → ImmsCur c σ → evalC ms σ e = .ok vC → WF σ e

theorem WFHyp.mono {ms WF c es es'} (h : WFHyp ms WF c es) (hs : ∀ e ∈ es', e ∈ es) : WFHyp ms WF c es' :=
  fun e he => h e (hs e he)

section
variable {ms : MacroSem} {WF : MState → CExpr → Prop} (hE : ExprOK ms WF)
variable {c : Ctx} {env : CEnv} (henv : env.cfg = Cfg.fixed)
include hE henv

/-- the expression theorem, applied on the IL-side state for a C-side evaluation.  The one-state expression theorem
    is used in the IL-side state SEEN WITH THE C SIDE'S CURRENT IMMEDIATES (`{ σIL with imm := σC.imm }`: there the
    local of every immediate letter holds the state's immediate, `himm`); the compiled expression never reads
    `MState.imm` (`ImmFree.ni_compileExpr`), so its value in `σIL` itself is the same. -/
theorem expr_sim {σC σIL : MState} {e : CExpr} {ce : CE} {vC : Val}
    (hag : AgreeOn (readVars e) (readRegs e) (readImms e) σC { σIL with imm := σC.imm }) (hinv : SInv c σIL)
    (himm : ∀ l ∈ c.imms, lookupS l σIL.locals = some (.bv 32 (BitVec.ofNat 32 (σC.imm l))))
    (hwf : WFHyp ms WF c [e])
    (hev : evalC ms σC e = .ok vC) (hce : compileExpr env e = .ok ce) :
    Sim ms σIL ce (typeOfC e) vC := by
  have hev' := evalC_congr ms e hag hev
  obtain ⟨vIL, h1, h2, h3⟩ := hE { σIL with imm := σC.imm } env e ce vC henv
    (hwf e (by simp) _ vC (hinv.withImm _) himm hev') hev' hce
  rw [ImmFree.evalPure_compileExpr_withImm hce] at h1
  exact ⟨vIL, h1, h2, h3⟩

theorem decl_correct {st st' : TSt} {t : CT} {n : String} {e : CExpr} {eff : ILEffect}
    {σC σIL σC' : MState} {f : Nat} (hc : c.ok = true)
    (hcomp : compileStmt env st (.decl t n (some e)) = .ok (eff, st'))
    (hwf : WFStmt c (.decl t n (some e)) = true) (hWF : WFHyp ms WF c [e])
    (hinv : Inv c σC σIL)
    (hex : execC ms (f+1) (.decl t n (some e)) σC = .ok σC') :
    ∃ σIL', ExecIL ms eff σIL σIL' ∧ Inv c σC' σIL' := by
  simp only [compileStmt] at hcomp
  obtain ⟨ce, hce, hcomp⟩ := bind_ok hcomp
  simp only [execC] at hex
  obtain ⟨v, hv, hex⟩ := bind_ok hex
  obtain ⟨v', hv', hex⟩ := bind_ok hex
  simp only [WFStmt, Bool.and_eq_true, beq_iff_eq, bne_iff_ne, ne_eq] at hwf
  rw [convTo_eq, henv] at hcomp
  cases hcomp
  have hsim := expr_sim hE henv (hinv.rel.agreeOn _ _ _) hinv.inv hinv.immVal hWF hv hce
  obtain ⟨x, hcv, _, he, _⟩ := sim_convTo t hsim hwf.2
  rw [hcv] at hv'; cases hv'
  cases hex
  exact ⟨_, ExecIL_setl he, hinv.setDeclared hc hwf.1 x⟩

theorem store_correct {st st' : TSt} {w : Nat} {e : CExpr} {eff : ILEffect}
    {σC σIL σC' : MState} {f : Nat}
    (hcomp : compileStmt env st (.store w e) = .ok (eff, st'))
    (hwf : WFStmt c (.store w e) = true) (hWF : WFHyp ms WF c [e])
    (hinv : Inv c σC σIL)
    (hex : execC ms (f+1) (.store w e) σC = .ok σC') :
    ∃ σIL', ExecIL ms eff σIL σIL' ∧ Inv c σC' σIL' := by
  simp only [compileStmt] at hcomp
  obtain ⟨ce, hce, hcomp⟩ := bind_ok hcomp
  simp only [execC] at hex
  obtain ⟨v, hv, hex⟩ := bind_ok hex
  obtain ⟨v', hv', hex⟩ := bind_ok hex
  simp only [WFStmt, bne_iff_ne, ne_eq] at hwf
  rw [henv] at hcomp
  cases hcomp
  have hsim := expr_sim hE henv (hinv.rel.agreeOn _ _ _) hinv.inv hinv.immVal hWF hv hce
  obtain ⟨x, hcv, he⟩ := sim_storeCast w hsim hwf
  rw [hcv] at hv'; cases hv'
  cases hea : lookupS "EA" σC.locals with
  | none => rw [hea] at hex; simp at hex
  | some vea =>
    rw [hea] at hex
    cases vea with
    | bv wa ea =>
      simp only at hex
      cases hex
      have heaIL := hinv.rel.locals _ _ hea
      refine ⟨_, ExecIL_of_step (fun k => ?_), hinv.store ea.toNat x.toNat (w / 8)⟩
      rw [execIL]
      have h1 : evalPure ms σIL [] (.varl "EA") = .ok (.bv wa ea) := by simp only [evalPure, heaIL]
      exact bind_ok_of h1 (bind_ok_of he rfl)
    | _ => simp at hex

theorem jump_correct {st st' : TSt} {e : CExpr} {eff : ILEffect}
    {σC σIL σC' : MState} {f : Nat} (hc : c.ok = true)
    (hcomp : compileStmt env st (.jump e) = .ok (eff, st'))
    (hwf : WFStmt c (.jump e) = true) (hWF : WFHyp ms WF c [e])
    (hinv : Inv c σC σIL)
    (hex : execC ms (f+1) (.jump e) σC = .ok σC') :
    ∃ σIL', ExecIL ms eff σIL σIL' ∧ Inv c σC' σIL' := by
  simp only [compileStmt] at hcomp
  obtain ⟨ce, hce, hcomp⟩ := bind_ok hcomp
  simp only [execC] at hex
  obtain ⟨v, hv, hex⟩ := bind_ok hex
  obtain ⟨v', hv', hex⟩ := bind_ok hex
  simp only [WFStmt, Bool.not_eq_eq_eq_not, Bool.not_true, List.contains_eq_mem, decide_eq_false_iff_not] at hwf
  rw [henv] at hcomp
  cases hcomp
  cases hex
  -- the IL sets the flag first; the target is evaluated in the state with the flag set
  have hinv1 := hinv.setSpecial hc (n := "jump_flag") (by decide) (by decide) (.bool true)
  have hag : AgreeOn (readVars e) (readRegs e) (readImms e) σC
      { { σIL with locals := setLocal σIL.locals "jump_flag" (.bool true) } with imm := σC.imm } := by
    have r := hinv.rel
    refine ⟨fun ov _ => ⟨congrFun r.cur ov, congrFun r.new ov, congrFun r.written ov⟩, r.mem, fun _ _ => rfl, r.pktAddr, ?_⟩
    intro n hn w hw
    have : n ≠ "jump_flag" := fun e' => hwf (e' ▸ hn)
    simp only [lookupS_setLocal_ne this]
    exact r.locals _ _ hw
  have hsim := expr_sim hE henv hag hinv1.inv hinv1.immVal hWF hv hce
  have htarget : ∃ x : BitVec 32, v' = .bv 32 x ∧
      evalPure ms { σIL with locals := setLocal σIL.locals "jump_flag" (.bool true) } []
        (if ce.ty.width != 32 then initACast Cfg.fixed { signed := false, width := 32, group := 1 } ce else ce).il
        = .ok (.bv 32 x) := by
    by_cases h32 : ce.ty.width = 32
    · simp only [h32, bne_self_eq_false, Bool.false_eq_true, ↓reduceIte]
      have hnb : ce.ty.hasFlag VT.gBOOL = false := by
        cases hcb : ce.ty.hasFlag VT.gBOOL with
        | false => rfl
        | true => obtain ⟨_, _, _, _, hw, _⟩ := hsim.bool hcb; omega
      obtain ⟨x, he, rfl, _, hw⟩ := hsim.bv hnb
      have hw32 : (typeOfC e).width = 32 := by omega
      rw [convC_same_width x (by simp [utT, hw32])] at hv'
      cases hv'
      generalize (typeOfC e).width = n at x he hw32
      subst hw32
      exact ⟨x, rfl, he⟩
    · have : (ce.ty.width != 32) = true := by simp [h32]
      simp only [this, ↓reduceIte]
      obtain ⟨x, hcv, _, he, _⟩ := sim_convTo utT hsim (by simp [utT])
      rw [hcv] at hv'; cases hv'
      exact ⟨x, rfl, he⟩
  obtain ⟨x, rfl, he⟩ := htarget
  refine ⟨_, ExecIL_seqn.2 (ExecSeqIL_cons (ExecIL_setl (by simp only [evalPure]))
    (ExecSeqIL_cons (ExecIL_setl he) ExecSeqIL_nil)), ?_⟩
  exact hinv1.setSpecial hc (n := "jump_target") (by decide) (by decide) _

omit hE henv in
theorem hex_store_slot_not_hex : "HEX_STORE_SLOT_CANCELLED".startsWith "hex_" = false := by
  rw [Bool.eq_false_iff]; intro h
  rw [String.startsWith_string_iff] at h
  revert h; decide

omit hE in
theorem skip_correct {st st' : TSt} {w : String} {eff : ILEffect}
    {σC σIL σC' : MState} {f : Nat} (hc : c.ok = true)
    (hcomp : compileStmt env st (.skip w) = .ok (eff, st'))
    (hinv : Inv c σC σIL)
    (hex : execC ms (f+1) (.skip w) σC = .ok σC') :
    ∃ σIL', ExecIL ms eff σIL σIL' ∧ Inv c σC' σIL' := by
  simp only [compileStmt] at hcomp
  simp only [execC] at hex
  by_cases h1 : w = "cancel_slot;"
  · subst h1
    simp only [beq_self_eq_true, ↓reduceIte] at hcomp
    cases hcomp
    have : ("cancel_slot;" == "STORE_SLOT_CANCELLED(pkt, slot);") = false := by decide
    simp only [this, Bool.false_eq_true, ↓reduceIte] at hex
    cases hex
    exact ⟨_, ExecIL_nop, hinv⟩
  · have h1' : (w == "cancel_slot;") = false := by simp [h1]
    simp only [h1', Bool.false_eq_true, ↓reduceIte] at hcomp
    by_cases h2 : w = "STORE_SLOT_CANCELLED(pkt, slot);"
    · subst h2
      simp only [beq_self_eq_true, ↓reduceIte] at hcomp hex
      cases hcomp
      cases hex
      refine ⟨_, ExecIL_of_step (fun k => ?_), hinv.setSpecial hc (n := "$slot_cancelled") (by decide) (by decide) _⟩
      rw [execIL]
      simp only [evalPures, evalPure, bind, Except.bind, hex_store_slot_not_hex, Bool.false_eq_true, ↓reduceIte,
        beq_self_eq_true]
    · have h2' : (w == "STORE_SLOT_CANCELLED(pkt, slot);") = false := by simp [h2]
      simp only [h2', Bool.false_eq_true, ↓reduceIte] at hcomp hex
      cases hcomp
      cases hex
      exact ⟨_, ExecIL_empty, hinv⟩

end
end C05
end Rzil
