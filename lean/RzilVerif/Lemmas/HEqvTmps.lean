import RzilVerif.Lemmas.HEqvBasic
import RzilVerif.Lemmas.ExprEqns
/-!
  CompileH ≃ Compile, part 2: the IL the pure model builds from hybrid-free sources names no hybrid temporary.
-/
namespace Rzil
namespace HEqv

theorem nt_numberIL (t : VT) (v : Int) : tmpsOfPure (numberIL t v) = [] := by
  simp only [numberIL, tmpsOfPure]

theorem nt_regRead (env : CEnv) (n k) : tmpsOfPure (regRead env n k) = [] := by
  unfold regRead; split <;> simp only [tmpsOfPure]

theorem nt_condILk (c : CE) (h : tmpsOfPure c.il = []) : tmpsOfPure (condILk c) = [] := by
  unfold condILk; split <;> simp only [tmpsOfPure, h]

theorem nt_condIL (cfg : Cfg) (c : CE) (h : tmpsOfPure c.il = []) : tmpsOfPure (condIL cfg c) = [] := by
  unfold condIL; split
  · exact nt_condILk c h
  · split <;> simp only [tmpsOfPure, h]

theorem nt_initACast (cfg : Cfg) (t : VT) (p : CE) (h : tmpsOfPure p.il = []) :
    tmpsOfPure (initACast cfg t p).il = [] := by
  unfold initACast
  split
  · exact h
  · split
    · split <;> simp only [tmpsOfPure, nt_numberIL, nt_condILk p h, h, List.append_nil]
    · simp only
      split <;> split <;> simp only [tmpsOfPure, h, List.append_nil]

theorem nt_boolToInt (cfg : Cfg) (t : VT) (p : CE) (h : tmpsOfPure p.il = []) :
    tmpsOfPure (boolToInt cfg t p).il = [] := by
  unfold boolToInt
  split <;> simp only [tmpsOfPure, nt_numberIL, nt_condILk p h, h, List.append_nil]

theorem nt_conv (cfg : Cfg) (t : VT) (p : CE) (h : tmpsOfPure p.il = []) :
    tmpsOfPure (if p.ty.eqv t then p else initACast cfg t p).il = [] := by
  split
  · exact h
  · exact nt_initACast cfg t p h

theorem nt_promotionCast (cfg : Cfg) (p : CE) (h : tmpsOfPure p.il = []) :
    tmpsOfPure (promotionCast cfg p).il = [] := by
  unfold promotionCast
  simp only
  split
  · exact h
  · exact nt_initACast cfg _ p h

theorem nt_ite {c : Prop} [Decidable c] {x y : CE} (hx : tmpsOfPure x.il = []) (hy : tmpsOfPure y.il = []) :
    tmpsOfPure (if c then x else y).il = [] := by
  split <;> assumption

theorem nt_ite_pair {c : Prop} [Decidable c] {x y : CE × CE}
    (hx : tmpsOfPure x.1.il = [] ∧ tmpsOfPure x.2.il = []) (hy : tmpsOfPure y.1.il = [] ∧ tmpsOfPure y.2.il = []) :
    tmpsOfPure (if c then x else y).1.il = [] ∧ tmpsOfPure (if c then x else y).2.il = [] := by
  split <;> assumption

theorem nt_castOperands (cfg : Cfg) (a b : CE) (ha : tmpsOfPure a.il = []) (hb : tmpsOfPure b.il = []) :
    tmpsOfPure (castOperands cfg a b).1.il = [] ∧ tmpsOfPure (castOperands cfg a b).2.il = [] := by
  unfold castOperands
  split
  · exact ⟨ha, hb⟩
  · simp only
    exact ⟨nt_ite (nt_initACast cfg _ a ha) ha, nt_ite (nt_initACast cfg _ b hb) hb⟩

theorem nt_unOfCE (cfg : Cfg) (op : String) (ce : CE) (h : tmpsOfPure ce.il = []) :
    tmpsOfPure (unOfCE cfg op ce).il = [] := by
  unfold unOfCE
  split
  · simp only
    split
    · split <;> exact nt_numberIL _ _
    · exact nt_numberIL _ _
  · simp only [tmpsOfPure, nt_promotionCast cfg ce h]

theorem nt_foldBin (cfg op ca cb va vb) : tmpsOfPure (foldBin cfg op ca cb va vb).il = [] := by
  unfold foldBin; exact nt_numberIL _ _

theorem nt_compileBin (env : CEnv) (op : String) (ca cb r : CE) (ha : tmpsOfPure ca.il = [])
    (hb : tmpsOfPure cb.il = []) (h : compileBin env op ca cb = .ok r) : tmpsOfPure r.il = [] := by
  rw [compileBin_eq] at h
  simp only at h
  have hc := nt_castOperands env.cfg _ _ (nt_promotionCast env.cfg ca ha) (nt_promotionCast env.cfg cb hb)
  split at h
  · cases h; simp only [tmpsOfPure, hc.1, hc.2, List.append_nil]
  · cases h

theorem nt_binBody (env : CEnv) (op : String) (ca cb r : CE) (ha : tmpsOfPure ca.il = [])
    (hb : tmpsOfPure cb.il = []) (h : binBody env op ca cb = .ok r) : tmpsOfPure r.il = [] := by
  unfold binBody at h
  split at h
  · split at h
    · cases h; exact nt_foldBin _ _ _ _ _ _
    · exact nt_compileBin env op ca cb r ha hb h
  · exact nt_compileBin env op ca cb r ha hb h

theorem nt_bool_ite (b : Bool) : tmpsOfPure (if b then ILPure.btrue else ILPure.bfalse) = [] := by
  cases b <;> simp [tmpsOfPure]

theorem nt_foldCmp (cfg op ca cb va vb) : tmpsOfPure (foldCmp cfg op ca cb va vb).il = [] :=
  nt_bool_ite _

theorem nt_cmpOfCE (cfg : Cfg) (op : String) (ca cb : CE) (ha : tmpsOfPure ca.il = [])
    (hb : tmpsOfPure cb.il = []) : tmpsOfPure (cmpOfCE cfg op ca cb).il = [] := by
  unfold cmpOfCE
  simp only
  have hP := nt_ite_pair (c := cfg.cmpUnpromoted = true) (x := (ca, cb))
    (y := (promotionCast cfg ca, promotionCast cfg cb)) ⟨ha, hb⟩
    ⟨nt_promotionCast cfg ca ha, nt_promotionCast cfg cb hb⟩
  generalize (if cfg.cmpUnpromoted = true then (ca, cb) else (promotionCast cfg ca, promotionCast cfg cb)) = P at hP ⊢
  have hc := nt_castOperands cfg P.1 P.2 hP.1 hP.2
  split <;> simp only [tmpsOfPure, hc.1, hc.2, List.append_nil]

theorem nt_cmpBody (cfg : Cfg) (op : String) (ca cb : CE) (ha : tmpsOfPure ca.il = [])
    (hb : tmpsOfPure cb.il = []) : tmpsOfPure (cmpBody cfg op ca cb).il = [] := by
  unfold cmpBody
  split
  · exact nt_foldCmp _ _ _ _ _ _
  · exact nt_cmpOfCE cfg op ca cb ha hb

theorem nt_ternOfCE (cfg : Cfg) (cc ca cb : CE) (hc : tmpsOfPure cc.il = []) (ha : tmpsOfPure ca.il = [])
    (hb : tmpsOfPure cb.il = []) : tmpsOfPure (ternOfCE cfg cc ca cb).il = [] := by
  unfold ternOfCE
  have h1 := nt_castOperands cfg _ _ (nt_promotionCast cfg ca ha) (nt_promotionCast cfg cb hb)
  have hfab := nt_ite_pair (c := cfg.literalTypeBySuffixOnly = true) (x := (ca, cb))
    (y := castOperands cfg (promotionCast cfg ca) (promotionCast cfg cb)) ⟨ha, hb⟩ h1
  have hP := nt_ite_pair (c := cfg.cmpUnpromoted = true) (x := (ca, cb))
    (y := (promotionCast cfg ca, promotionCast cfg cb)) ⟨ha, hb⟩
    ⟨nt_promotionCast cfg ca ha, nt_promotionCast cfg cb hb⟩
  simp only
  generalize (if cfg.cmpUnpromoted = true then (ca, cb) else (promotionCast cfg ca, promotionCast cfg cb)) = P at hP ⊢
  have hc2 := nt_castOperands cfg P.1 P.2 hP.1 hP.2
  split
  · exact nt_ite hfab.1 hfab.2
  · exact nt_ite hfab.1 hfab.2
  · simp only [tmpsOfPure, nt_condIL cfg cc hc, hc2.1, hc2.2, List.append_nil]



theorem bind_ok {ε α β : Type} {x : Except ε α} {f : α → Except ε β} {b : β}
    (h : (x >>= f) = .ok b) : ∃ a, x = .ok a ∧ f a = .ok b := by
  cases x with
  | error e => simp [bind, Except.bind] at h
  | ok a => exact ⟨a, rfl, h⟩

mutual
/-- the IL of a hybrid-free expression names no hybrid temporary -/
theorem nt_compileExpr (env : CEnv) :
    (e : CExpr) → {ce : CE} → HybFree e = true → compileExpr env e = .ok ce → tmpsOfPure ce.il = []
  | .reg n k t, ce, _, h => by
      rw [compileExpr_reg] at h; cases h; exact nt_regRead env n k
  | .imm l s, ce, hf, h => by
      rw [compileExpr_imm] at h; cases h
      simp only [HybFree, Bool.not_eq_eq_eq_not, Bool.not_true] at hf
      simp only [tmpsOfPure, hf, Bool.false_eq_true, ↓reduceIte]
  | .lit v hx sfx, ce, _, h => by
      rw [compileExpr_lit] at h
      split at h <;> (cases h; exact nt_numberIL _ _)
  | .var n t, ce, hf, h => by
      rw [compileExpr_var] at h; cases h
      simp only [HybFree, Bool.not_eq_eq_eq_not, Bool.not_true] at hf
      simp only [tmpsOfPure, hf, Bool.false_eq_true, ↓reduceIte]
  | .cast t e, ce, hf, h => by
      rw [compileExpr_cast] at h
      obtain ⟨c1, h1, h⟩ := bind_ok h
      simp only [HybFree] at hf
      have := nt_compileExpr env e hf h1
      split at h <;> cases h
      · exact this
      · exact nt_initACast _ _ _ this
  | .un op e, ce, hf, h => by
      rw [compileExpr_un] at h
      obtain ⟨c1, h1, h⟩ := bind_ok h
      simp only [HybFree] at hf
      cases h; exact nt_unOfCE _ _ _ (nt_compileExpr env e hf h1)
  | .not e, ce, hf, h => by
      rw [compileExpr_not] at h
      obtain ⟨c1, h1, h⟩ := bind_ok h
      simp only [HybFree] at hf
      cases h
      simp only [tmpsOfPure, nt_condIL _ _ (nt_compileExpr env e hf h1)]
  | .bin op a b, ce, hf, h => by
      rw [compileExpr_bin] at h
      obtain ⟨c1, h1, h⟩ := bind_ok h
      obtain ⟨c2, h2, h⟩ := bind_ok h
      simp only [HybFree, Bool.and_eq_true] at hf
      exact nt_binBody env op c1 c2 ce (nt_compileExpr env a hf.1 h1) (nt_compileExpr env b hf.2 h2) h
  | .shift op a b, ce, hf, h => by
      rw [compileExpr_shift] at h
      obtain ⟨c1, h1, h⟩ := bind_ok h
      obtain ⟨c2, h2, h⟩ := bind_ok h
      simp only [HybFree, Bool.and_eq_true] at hf
      have ha := nt_compileExpr env a hf.1 h1
      have hb := nt_compileExpr env b hf.2 h2
      cases h
      have : tmpsOfPure (if env.cfg.shiftLeftUnpromoted = true then c1 else promotionCast env.cfg c1).il = [] :=
        nt_ite ha (nt_promotionCast _ _ ha)
      simp only [tmpsOfPure, this, hb, List.append_nil]
  | .cmp op a b, ce, hf, h => by
      rw [compileExpr_cmp] at h
      obtain ⟨c1, h1, h⟩ := bind_ok h
      obtain ⟨c2, h2, h⟩ := bind_ok h
      simp only [HybFree, Bool.and_eq_true] at hf
      cases h
      exact nt_cmpBody _ op c1 c2 (nt_compileExpr env a hf.1 h1) (nt_compileExpr env b hf.2 h2)
  | .log op a b, ce, hf, h => by
      rw [compileExpr_log] at h
      obtain ⟨c1, h1, h⟩ := bind_ok h
      obtain ⟨c2, h2, h⟩ := bind_ok h
      simp only [HybFree, Bool.and_eq_true] at hf
      have hc := nt_castOperands env.cfg c1 c2 (nt_compileExpr env a hf.1 h1) (nt_compileExpr env b hf.2 h2)
      cases h
      simp only [tmpsOfPure, nt_condIL _ _ hc.1, nt_condIL _ _ hc.2, List.append_nil]
  | .tern c a b, ce, hf, h => by
      rw [compileExpr_tern] at h
      obtain ⟨c0, h0, h⟩ := bind_ok h
      obtain ⟨c1, h1, h⟩ := bind_ok h
      obtain ⟨c2, h2, h⟩ := bind_ok h
      simp only [HybFree, Bool.and_eq_true] at hf
      cases h
      exact nt_ternOfCE _ c0 c1 c2 (nt_compileExpr env c hf.1.1 h0) (nt_compileExpr env a hf.1.2 h1)
        (nt_compileExpr env b hf.2 h2)
  | .macro name args ret params, ce, hf, h => by
      rw [compileExpr_macro] at h
      obtain ⟨cs, h1, h⟩ := bind_ok h
      simp only [HybFree] at hf
      cases h
      simp only [tmpsOfPure, nt_compileArgs env args params hf h1]
  | .load s w t, ce, _, h => by
      rw [compileExpr_load] at h; cases h
      simp only [tmpsOfPure, isHTmp_EA, Bool.false_eq_true, ↓reduceIte, List.append_nil]
      split <;> split <;> simp only [tmpsOfPure, isHTmp_EA, Bool.false_eq_true, ↓reduceIte]
  | .post _ _ _, ce, hf, _ => by simp [HybFree] at hf
  | .call _ _ _ _, ce, hf, _ => by simp [HybFree] at hf
  | .stmtexpr _ _ _, ce, hf, _ => by simp [HybFree] at hf
theorem nt_compileArgs (env : CEnv) :
    (as : List CExpr) → (ps : List CT) → {cs : List ILPure} → HybFreeL as ps = true →
      compileArgs env as ps = .ok cs → tmpsOfPures cs = []
  | [], _, cs, _, h => by rw [compileArgs_nil] at h; cases h; simp only [tmpsOfPures]
  | _ :: _, [], cs, hf, _ => by simp [HybFreeL] at hf
  | a :: as, p :: ps, cs, hf, h => by
      rw [compileArgs_cons] at h
      obtain ⟨c1, h1, h⟩ := bind_ok h
      obtain ⟨r, h2, h⟩ := bind_ok h
      simp only [HybFreeL, Bool.and_eq_true] at hf
      cases h
      simp only [tmpsOfPures, nt_conv _ _ _ (nt_compileExpr env a hf.1 h1), nt_compileArgs env as ps hf.2 h2,
        List.append_nil]
end

end HEqv
end Rzil
