import RzilVerif.Lemmas.HybFragE
import RzilVerif.Lemmas.StmtState
import RzilVerif.Model.CSemH
/-!
  C06 helpers, part 14 (simulation fragment, B): the C side.  On the fragment, `evalCH` of `e` from `σ` gives
  the value `evalC` gives for `unhyb k e` in any state `σ2` that agrees with `σ` on what `e` reads and binds the
  temporaries `h_tmp{k+j}` to the values the postfix variables had; and it ends in `σ` with the postfix operations
  applied in order.
-/
namespace Rzil
namespace C06
open C05 (bind_ok bind_ok_of lookupS_setLocal lookupS_setLocal_ne lookupS_setLocal_self)

/-- C-side effect of one postfix operation -/
def stepPost (σ : MState) (p : String × CT × String) : MState :=
  match lookupS p.1 σ.locals with
  | some (.bv w x) => { σ with locals := setLocal σ.locals p.1 (.bv w (if p.2.2 == "++" then x + 1 else x - 1)) }
  | _ => σ

def applyPosts (ps : List (String × CT × String)) (σ : MState) : MState := ps.foldl stepPost σ

theorem applyPosts_append (xs ys : List (String × CT × String)) (σ : MState) :
    applyPosts (xs ++ ys) σ = applyPosts ys (applyPosts xs σ) := by
  simp [applyPosts, List.foldl_append]

theorem stepPost_fields (σ : MState) (p : String × CT × String) :
    (stepPost σ p).cur = σ.cur ∧ (stepPost σ p).new = σ.new ∧ (stepPost σ p).written = σ.written ∧
    (stepPost σ p).mem = σ.mem ∧ (stepPost σ p).imm = σ.imm ∧ (stepPost σ p).pktAddr = σ.pktAddr ∧
    (stepPost σ p).stores = σ.stores ∧ (stepPost σ p).params = σ.params := by
  unfold stepPost
  split <;> simp

theorem stepPost_lookup_ne (σ : MState) (p : String × CT × String) {n : String} (h : n ≠ p.1) :
    lookupS n (stepPost σ p).locals = lookupS n σ.locals := by
  unfold stepPost
  split
  · simp only [lookupS_setLocal_ne h]
  · rfl

theorem applyPosts_fields (ps : List (String × CT × String)) (σ : MState) :
    (applyPosts ps σ).cur = σ.cur ∧ (applyPosts ps σ).new = σ.new ∧ (applyPosts ps σ).written = σ.written ∧
    (applyPosts ps σ).mem = σ.mem ∧ (applyPosts ps σ).imm = σ.imm ∧ (applyPosts ps σ).pktAddr = σ.pktAddr ∧
    (applyPosts ps σ).stores = σ.stores ∧ (applyPosts ps σ).params = σ.params := by
  induction ps generalizing σ with
  | nil => simp [applyPosts]
  | cons p ps ih =>
    have h1 := stepPost_fields σ p
    have h2 := ih (stepPost σ p)
    simp only [applyPosts, List.foldl_cons] at h2 ⊢
    obtain ⟨a1, a2, a3, a4, a5, a6, a7, a8⟩ := h1
    obtain ⟨b1, b2, b3, b4, b5, b6, b7, b8⟩ := h2
    exact ⟨b1.trans a1, b2.trans a2, b3.trans a3, b4.trans a4, b5.trans a5, b6.trans a6, b7.trans a7, b8.trans a8⟩

theorem applyPosts_lookup_ne (ps : List (String × CT × String)) (σ : MState) {n : String}
    (h : n ∉ ps.map (·.1)) : lookupS n (applyPosts ps σ).locals = lookupS n σ.locals := by
  induction ps generalizing σ with
  | nil => rfl
  | cons p ps ih =>
    simp only [List.map_cons, List.mem_cons, not_or] at h
    simp only [applyPosts, List.foldl_cons]
    have := ih (stepPost σ p) h.2
    simp only [applyPosts] at this
    rw [this, stepPost_lookup_ne σ p h.1]

/-- `σ2` extends `σ` for the evaluation of `unhyb k e` -/
structure Ext (k : Nat) (reads : List String) (ps : List (String × CT × String)) (σ σ2 : MState) : Prop where
  cur : σ2.cur = σ.cur
  new : σ2.new = σ.new
  written : σ2.written = σ.written
  mem : σ2.mem = σ.mem
  imm : σ2.imm = σ.imm
  pktAddr : σ2.pktAddr = σ.pktAddr
  vars : ∀ n ∈ reads, ∀ v, lookupS n σ.locals = some v → lookupS n σ2.locals = some v
  tmps : ∀ j p, ps[j]? = some p → ∀ v, lookupS p.1 σ.locals = some v → lookupS (tmpName (k + j)) σ2.locals = some v

theorem Ext.left {k : Nat} {r1 r2 : List String} {p1 p2 : List (String × CT × String)} {σ σ2 : MState}
    (h : Ext k (r1 ++ r2) (p1 ++ p2) σ σ2) : Ext k r1 p1 σ σ2 :=
  ⟨h.cur, h.new, h.written, h.mem, h.imm, h.pktAddr, fun n hn => h.vars n (List.mem_append_left _ hn),
   fun j p hj => h.tmps j p (by
     have hlt : j < p1.length := (List.getElem?_eq_some_iff.mp hj).1
     rw [List.getElem?_append_left hlt]; exact hj)⟩

/-- after the left operand's postfix operations, `σ2` still extends the state for the right operand -/
theorem Ext.right {k : Nat} {r1 r2 : List String} {p1 p2 : List (String × CT × String)} {σ σ2 : MState}
    (h : Ext k (r1 ++ r2) (p1 ++ p2) σ σ2)
    (hnd : ((p1 ++ p2).map (·.1)).Nodup) (hdis : ∀ v ∈ (p1 ++ p2).map (·.1), v ∉ r1 ++ r2) :
    Ext (k + p1.length) r2 p2 (applyPosts p1 σ) σ2 := by
  obtain ⟨f1, f2, f3, f4, f5, f6, _, _⟩ := applyPosts_fields p1 σ
  refine ⟨h.cur.trans f1.symm, h.new.trans f2.symm, h.written.trans f3.symm, h.mem.trans f4.symm,
    h.imm.trans f5.symm, h.pktAddr.trans f6.symm, ?_, ?_⟩
  · intro n hn v hv
    have hn' : n ∉ p1.map (·.1) := fun hm =>
      hdis n (by simp only [List.map_append, List.mem_append]; exact Or.inl hm) (List.mem_append_right _ hn)
    rw [applyPosts_lookup_ne p1 σ hn'] at hv
    exact h.vars n (List.mem_append_right _ hn) v hv
  · intro j p hj v hv
    have hp2 : p ∈ p2 := List.mem_of_getElem? hj
    have hn' : p.1 ∉ p1.map (·.1) := by
      intro hm
      rw [List.map_append, List.nodup_append] at hnd
      exact hnd.2.2 _ hm _ (List.mem_map_of_mem hp2) rfl
    rw [applyPosts_lookup_ne p1 σ hn'] at hv
    have := h.tmps (p1.length + j) p (by rw [List.getElem?_append_right (by omega)]; simpa using hj) v hv
    rw [show k + p1.length + j = k + (p1.length + j) by omega]; exact this

theorem typeOfC_unhyb : (e : CExpr) → (k : Nat) → postOnly e = true → typeOfC (unhyb k e) = typeOfC e
  | .reg _ _ _, _, _ => rfl
  | .imm _ _, _, _ => rfl
  | .lit _ _ _, _, _ => rfl
  | .var _ _, _, _ => rfl
  | .load _ _ _, _, _ => rfl
  | .cast _ _, _, _ => rfl
  | .un _ e, k, h => by simp [unhyb, typeOfC, typeOfC_unhyb e k (by simpa [postOnly] using h)]
  | .not _, _, _ => rfl
  | .bin _ a b, k, h => by
      simp only [postOnly, Bool.and_eq_true] at h
      simp [unhyb, typeOfC, typeOfC_unhyb a k h.1, typeOfC_unhyb b _ h.2]
  | .shift _ a b, k, h => by
      simp only [postOnly, Bool.and_eq_true] at h
      simp [unhyb, typeOfC, typeOfC_unhyb a k h.1]
  | .cmp _ _ _, _, _ => rfl
  | .post _ _ _, _, _ => rfl
  | .log _ _ _, _, h => by simp [postOnly] at h
  | .tern _ _ _, _, h => by simp [postOnly] at h
  | .macro _ _ _ _, _, h => by simp [postOnly] at h
  | .call _ _ _ _, _, h => by simp [postOnly] at h
  | .stmtexpr _ _ _, _, h => by simp [postOnly] at h

theorem map_ok_inv {α β : Type} {x : Except Stuck α} {g : α → β} {y : β} (h : Except.map g x = .ok y) :
    ∃ a, x = .ok a ∧ g a = y := by
  cases x with
  | error e => simp [Except.map] at h
  | ok a => exact ⟨a, rfl, by simpa [Except.map] using h⟩

theorem readRegC_ext {k : Nat} {r : List String} {ps : List (String × CT × String)} {σ σ2 : MState}
    (h : Ext k r ps σ σ2) (n : String) (kd : RegKind) (t : CT) : readRegC σ2 n kd t = readRegC σ n kd t := by
  simp only [readRegC, h.cur, h.new, h.written, h.pktAddr]

/-- (B) -/
theorem evalCH_frag (ms : MacroSem) (subs : CSubEnv) : (e : CExpr) → postOnly e = true →
    ((postsOf e).map (·.1)).Nodup → (∀ v ∈ (postsOf e).map (·.1), v ∉ readVars e) →
    ∀ (f : Nat) (σ σ' : MState) (v : Val), evalCH ms subs f σ e = .ok (v, σ') →
      σ' = applyPosts (postsOf e) σ ∧
      (∀ p ∈ postsOf e, ∃ w x, lookupS p.1 σ.locals = some (.bv w x)) ∧
      ∀ (k : Nat) (σ2 : MState), Ext k (readVars e) (postsOf e) σ σ2 → evalC ms σ2 (unhyb k e) = .ok v
  | .reg n kd t, _, _, _, f, σ, σ', v, h => by
      cases f with
      | zero => simp [evalCH] at h
      | succ f =>
        simp only [evalCH, Except.ok.injEq, Prod.mk.injEq] at h
        obtain ⟨rfl, rfl⟩ := h
        exact ⟨rfl, by simp [postsOf], fun k σ2 hx => by simp only [unhyb, evalC, readRegC_ext hx]⟩
  | .imm l s, _, _, _, f, σ, σ', v, h => by
      cases f with
      | zero => simp [evalCH] at h
      | succ f =>
        simp only [evalCH, Except.ok.injEq, Prod.mk.injEq] at h
        obtain ⟨rfl, rfl⟩ := h
        exact ⟨rfl, by simp [postsOf], fun k σ2 hx => by simp only [unhyb, evalC, hx.imm]⟩
  | .lit x hxx sfx, _, _, _, f, σ, σ', v, h => by
      cases f with
      | zero => simp [evalCH] at h
      | succ f =>
        simp only [evalCH, Except.ok.injEq, Prod.mk.injEq] at h
        obtain ⟨rfl, rfl⟩ := h
        exact ⟨rfl, by simp [postsOf], fun k σ2 hx => by simp only [unhyb, evalC]⟩
  | .var n t, _, _, _, f, σ, σ', v, h => by
      cases f with
      | zero => simp [evalCH] at h
      | succ f =>
        simp only [evalCH] at h
        cases hl : lookupS n σ.locals with
        | none => rw [hl] at h; simp at h
        | some w =>
          rw [hl] at h
          simp only [Except.ok.injEq, Prod.mk.injEq] at h
          obtain ⟨rfl, rfl⟩ := h
          refine ⟨rfl, by simp [postsOf], fun k σ2 hx => ?_⟩
          simp only [unhyb, evalC, hx.vars n (by simp [readVars]) w hl]
  | .load sg w t, _, _, _, f, σ, σ', v, h => by
      cases f with
      | zero => simp [evalCH] at h
      | succ f =>
        simp only [evalCH] at h
        cases hl : lookupS "EA" σ.locals with
        | none => rw [hl] at h; simp [bind, Except.bind] at h
        | some ea =>
          rw [hl] at h
          cases ea with
          | bv wa xa =>
            simp only at h
            obtain ⟨v1, hc, h⟩ := bind_ok h
            simp only [Except.ok.injEq, Prod.mk.injEq] at h
            obtain ⟨rfl, rfl⟩ := h
            refine ⟨rfl, by simp [postsOf], fun k σ2 hx => ?_⟩
            have hl2 := hx.vars "EA" (by simp [readVars]) _ hl
            simp only [unhyb, evalC, hl2, hx.mem]
            exact hc
          | _ => simp [bind, Except.bind] at h
  | .cast t e, hp, hnd, hdis, f, σ, σ', v, h => by
      cases f with
      | zero => simp [evalCH] at h
      | succ f =>
        simp only [evalCH] at h
        obtain ⟨⟨v1, σ1⟩, h1, h⟩ := bind_ok h
        obtain ⟨v2, hc, h⟩ := bind_ok h
        simp only [Except.ok.injEq, Prod.mk.injEq] at h
        obtain ⟨rfl, rfl⟩ := h
        have hp' : postOnly e = true := by simpa [postOnly] using hp
        obtain ⟨ih2, ih3, ih1⟩ := evalCH_frag ms subs e hp' (by simpa [postsOf] using hnd)
          (by simpa [postsOf, readVars] using hdis) f σ σ1 v1 h1
        refine ⟨by simpa [postsOf] using ih2, by simpa [postsOf] using ih3, fun k σ2 hx => ?_⟩
        simp only [unhyb, evalC, typeOfC_unhyb e k hp']
        exact bind_ok_of (ih1 k σ2 (by simpa [postsOf, readVars] using hx)) hc
  | .un op e, hp, hnd, hdis, f, σ, σ', v, h => by
      cases f with
      | zero => simp [evalCH] at h
      | succ f =>
        simp only [evalCH] at h
        obtain ⟨⟨v1, σ1⟩, h1, h⟩ := bind_ok h
        obtain ⟨v2, hc, h⟩ := bind_ok h
        have hp' : postOnly e = true := by simpa [postOnly] using hp
        obtain ⟨ih2, ih3, ih1⟩ := evalCH_frag ms subs e hp' (by simpa [postsOf] using hnd)
          (by simpa [postsOf, readVars] using hdis) f σ σ1 v1 h1
        cases v2 with
        | bv w x =>
          simp only at h
          split at h <;>
          · simp only [Except.ok.injEq, Prod.mk.injEq] at h
            obtain ⟨rfl, rfl⟩ := h
            refine ⟨by simpa [postsOf] using ih2, by simpa [postsOf] using ih3, fun k σ2 hx => ?_⟩
            simp only [unhyb, evalC, typeOfC_unhyb e k hp']
            refine bind_ok_of (ih1 k σ2 (by simpa [postsOf, readVars] using hx)) (bind_ok_of hc ?_)
            simp [*]
        | _ => simp at h
  | .not e, hp, hnd, hdis, f, σ, σ', v, h => by
      cases f with
      | zero => simp [evalCH] at h
      | succ f =>
        simp only [evalCH] at h
        obtain ⟨⟨v1, σ1⟩, h1, h⟩ := bind_ok h
        obtain ⟨b, hb, h⟩ := bind_ok h
        simp only [Except.ok.injEq, Prod.mk.injEq] at h
        obtain ⟨rfl, rfl⟩ := h
        have hp' : postOnly e = true := by simpa [postOnly] using hp
        obtain ⟨ih2, ih3, ih1⟩ := evalCH_frag ms subs e hp' (by simpa [postsOf] using hnd)
          (by simpa [postsOf, readVars] using hdis) f σ σ1 v1 h1
        refine ⟨by simpa [postsOf] using ih2, by simpa [postsOf] using ih3, fun k σ2 hx => ?_⟩
        simp only [unhyb, evalC]
        exact bind_ok_of (ih1 k σ2 (by simpa [postsOf, readVars] using hx)) (bind_ok_of hb rfl)
  | .bin op a b, hp, hnd, hdis, f, σ, σ', v, h => by
      cases f with
      | zero => simp [evalCH] at h
      | succ f =>
        simp only [evalCH] at h
        obtain ⟨⟨va, σ1⟩, h1, h⟩ := bind_ok h
        obtain ⟨⟨vb, σ3⟩, h2, h⟩ := bind_ok h
        obtain ⟨va', hca, h⟩ := bind_ok h
        obtain ⟨vb', hcb, h⟩ := bind_ok h
        obtain ⟨r, hr, h⟩ := bind_ok h
        simp only [Except.ok.injEq, Prod.mk.injEq] at h
        obtain ⟨rfl, rfl⟩ := h
        simp only [postOnly, Bool.and_eq_true] at hp
        simp only [postsOf, readVars] at hnd hdis
        have hnd1 : ((postsOf a).map (·.1)).Nodup := by rw [List.map_append, List.nodup_append] at hnd; exact hnd.1
        have hnd2 : ((postsOf b).map (·.1)).Nodup := by rw [List.map_append, List.nodup_append] at hnd; exact hnd.2.1
        obtain ⟨ia2, ia3, ia1⟩ := evalCH_frag ms subs a hp.1 hnd1
          (fun v hv hr => hdis v (by simp only [List.map_append, List.mem_append]; exact Or.inl hv) (List.mem_append_left _ hr))
          f σ σ1 va h1
        subst ia2
        obtain ⟨ib2, ib3, ib1⟩ := evalCH_frag ms subs b hp.2 hnd2
          (fun v hv hr => hdis v (by simp only [List.map_append, List.mem_append]; exact Or.inr hv) (List.mem_append_right _ hr))
          f _ σ3 vb h2
        subst ib2
        have hb3 : ∀ p ∈ postsOf a ++ postsOf b, ∃ w x, lookupS p.1 σ.locals = some (.bv w x) := by
          intro p hp'
          rcases List.mem_append.mp hp' with hm | hm
          · exact ia3 p hm
          · obtain ⟨w, x, hl⟩ := ib3 p hm
            have hn' : p.1 ∉ (postsOf a).map (·.1) := by
              intro hm'
              rw [List.map_append, List.nodup_append] at hnd
              exact hnd.2.2 _ hm' _ (List.mem_map_of_mem hm) rfl
            rw [applyPosts_lookup_ne _ _ hn'] at hl
            exact ⟨w, x, hl⟩
        refine ⟨by rw [postsOf, applyPosts_append], hb3, fun k σ2 hx => ?_⟩
        simp only [postsOf, readVars] at hx
        simp only [unhyb, evalC, typeOfC_unhyb a k hp.1, typeOfC_unhyb b _ hp.2]
        exact bind_ok_of (ia1 k σ2 hx.left) (bind_ok_of (ib1 _ σ2 (hx.right hnd hdis))
          (bind_ok_of hca (bind_ok_of hcb hr)))
  | .shift op a b, hp, hnd, hdis, f, σ, σ', v, h => by
      cases f with
      | zero => simp [evalCH] at h
      | succ f =>
        simp only [evalCH] at h
        obtain ⟨⟨va, σ1⟩, h1, h⟩ := bind_ok h
        obtain ⟨⟨vb, σ3⟩, h2, h⟩ := bind_ok h
        obtain ⟨va', hca, h⟩ := bind_ok h
        simp only [postOnly, Bool.and_eq_true] at hp
        simp only [postsOf, readVars] at hnd hdis
        have hnd1 : ((postsOf a).map (·.1)).Nodup := by rw [List.map_append, List.nodup_append] at hnd; exact hnd.1
        have hnd2 : ((postsOf b).map (·.1)).Nodup := by rw [List.map_append, List.nodup_append] at hnd; exact hnd.2.1
        obtain ⟨ia2, ia3, ia1⟩ := evalCH_frag ms subs a hp.1 hnd1
          (fun v hv hr => hdis v (by simp only [List.map_append, List.mem_append]; exact Or.inl hv) (List.mem_append_left _ hr))
          f σ σ1 va h1
        subst ia2
        obtain ⟨ib2, ib3, ib1⟩ := evalCH_frag ms subs b hp.2 hnd2
          (fun v hv hr => hdis v (by simp only [List.map_append, List.mem_append]; exact Or.inr hv) (List.mem_append_right _ hr))
          f _ σ3 vb h2
        subst ib2
        have hb3 : ∀ p ∈ postsOf a ++ postsOf b, ∃ w x, lookupS p.1 σ.locals = some (.bv w x) := by
          intro p hp'
          rcases List.mem_append.mp hp' with hm | hm
          · exact ia3 p hm
          · obtain ⟨w, x, hl⟩ := ib3 p hm
            have hn' : p.1 ∉ (postsOf a).map (·.1) := by
              intro hm'
              rw [List.map_append, List.nodup_append] at hnd
              exact hnd.2.2 _ hm' _ (List.mem_map_of_mem hm) rfl
            rw [applyPosts_lookup_ne _ _ hn'] at hl
            exact ⟨w, x, hl⟩
        cases va' with
        | bv w x =>
          cases vb with
          | bv wb y =>
            simp only at h
            split at h
            · cases h
            · rename_i hc1
              split at h
              · rename_i hc2
                simp only [Except.ok.injEq, Prod.mk.injEq] at h
                obtain ⟨rfl, rfl⟩ := h
                refine ⟨by rw [postsOf, applyPosts_append], hb3, fun k σ2 hx => ?_⟩
                simp only [postsOf, readVars] at hx
                simp only [unhyb, evalC, typeOfC_unhyb a k hp.1, typeOfC_unhyb b _ hp.2]
                refine bind_ok_of (ia1 k σ2 hx.left) (bind_ok_of (ib1 _ σ2 (hx.right hnd hdis)) (bind_ok_of hca ?_))
                simp [*]
              · rename_i hc2
                split at h <;>
                · rename_i hc3
                  simp only [Except.ok.injEq, Prod.mk.injEq] at h
                  obtain ⟨rfl, rfl⟩ := h
                  refine ⟨by rw [postsOf, applyPosts_append], hb3, fun k σ2 hx => ?_⟩
                  simp only [postsOf, readVars] at hx
                  simp only [unhyb, evalC, typeOfC_unhyb a k hp.1, typeOfC_unhyb b _ hp.2]
                  refine bind_ok_of (ia1 k σ2 hx.left) (bind_ok_of (ib1 _ σ2 (hx.right hnd hdis)) (bind_ok_of hca ?_))
                  simp [*]
          | _ => simp at h
        | _ => simp at h
  | .cmp op a b, hp, hnd, hdis, f, σ, σ', v, h => by
      cases f with
      | zero => simp [evalCH] at h
      | succ f =>
        simp only [evalCH] at h
        obtain ⟨⟨va, σ1⟩, h1, h⟩ := bind_ok h
        obtain ⟨⟨vb, σ3⟩, h2, h⟩ := bind_ok h
        obtain ⟨va', hca, h⟩ := bind_ok h
        obtain ⟨vb', hcb, h⟩ := bind_ok h
        simp only [postOnly, Bool.and_eq_true] at hp
        simp only [postsOf, readVars] at hnd hdis
        have hnd1 : ((postsOf a).map (·.1)).Nodup := by rw [List.map_append, List.nodup_append] at hnd; exact hnd.1
        have hnd2 : ((postsOf b).map (·.1)).Nodup := by rw [List.map_append, List.nodup_append] at hnd; exact hnd.2.1
        obtain ⟨ia2, ia3, ia1⟩ := evalCH_frag ms subs a hp.1 hnd1
          (fun v hv hr => hdis v (by simp only [List.map_append, List.mem_append]; exact Or.inl hv) (List.mem_append_left _ hr))
          f σ σ1 va h1
        subst ia2
        obtain ⟨ib2, ib3, ib1⟩ := evalCH_frag ms subs b hp.2 hnd2
          (fun v hv hr => hdis v (by simp only [List.map_append, List.mem_append]; exact Or.inr hv) (List.mem_append_right _ hr))
          f _ σ3 vb h2
        subst ib2
        have hb3 : ∀ p ∈ postsOf a ++ postsOf b, ∃ w x, lookupS p.1 σ.locals = some (.bv w x) := by
          intro p hp'
          rcases List.mem_append.mp hp' with hm | hm
          · exact ia3 p hm
          · obtain ⟨w, x, hl⟩ := ib3 p hm
            have hn' : p.1 ∉ (postsOf a).map (·.1) := by
              intro hm'
              rw [List.map_append, List.nodup_append] at hnd
              exact hnd.2.2 _ hm' _ (List.mem_map_of_mem hm) rfl
            rw [applyPosts_lookup_ne _ _ hn'] at hl
            exact ⟨w, x, hl⟩
        cases va' with
        | bv wa x =>
          cases vb' with
          | bv wb y =>
            simp only at h
            split at h
            · rename_i hw
              simp only [Except.ok.injEq, Prod.mk.injEq] at h
              obtain ⟨rfl, rfl⟩ := h
              refine ⟨by rw [postsOf, applyPosts_append], hb3, fun k σ2 hx => ?_⟩
              simp only [postsOf, readVars] at hx
              simp only [unhyb, evalC, typeOfC_unhyb a k hp.1, typeOfC_unhyb b _ hp.2]
              refine bind_ok_of (ia1 k σ2 hx.left) (bind_ok_of (ib1 _ σ2 (hx.right hnd hdis))
                (bind_ok_of hca (bind_ok_of hcb ?_)))
              simp [hw]
            · cases h
          | _ => simp at h
        | _ => simp at h
  | .post pv t op, _, _, _, f, σ, σ', v, h => by
      cases f with
      | zero => simp [evalCH] at h
      | succ f =>
        simp only [evalCH] at h
        cases hl : lookupS pv σ.locals with
        | none => rw [hl] at h; simp [bind, Except.bind] at h
        | some w =>
          rw [hl] at h
          cases w with
          | bv ww x =>
            simp only [bind, Except.bind, Except.ok.injEq, Prod.mk.injEq] at h
            obtain ⟨rfl, rfl⟩ := h
            refine ⟨?_, ?_, fun k σ2 hx => ?_⟩
            · simp only [postsOf, applyPosts, List.foldl_cons, List.foldl_nil, stepPost, hl]
            · intro p hp'
              simp only [postsOf, List.mem_singleton] at hp'
              subst hp'
              exact ⟨_, _, hl⟩
            · have := hx.tmps 0 (pv, t, op) (by simp [postsOf]) _ hl
              simp only [Nat.add_zero] at this
              simp only [unhyb, evalC, this]
          | _ => simp [bind, Except.bind] at h
  | .log _ _ _, hp, _, _, _, _, _, _, _ => by simp [postOnly] at hp
  | .tern _ _ _, hp, _, _, _, _, _, _, _ => by simp [postOnly] at hp
  | .macro _ _ _ _, hp, _, _, _, _, _, _, _ => by simp [postOnly] at hp
  | .call _ _ _ _, hp, _, _, _, _, _, _, _ => by simp [postOnly] at hp
  | .stmtexpr _ _ _, hp, _, _, _, _, _, _, _ => by simp [postOnly] at hp

end C06
end Rzil
