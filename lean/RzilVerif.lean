import RzilVerif.Model.Types
import RzilVerif.Model.Sexp
import RzilVerif.Model.DriverC04
import RzilVerif.Props.C04
