import RzilVerif.Model.Sexp
import RzilVerif.Model.DriverC04
import RzilVerif.Model.DriverText
import RzilVerif.Model.DriverC18
import RzilVerif.Model.DriverPP
import RzilVerif.Model.DriverSem
import RzilVerif.Model.DriverMeta
import RzilVerif.Model.Operands
import RzilVerif.Model.DriverLayout
import RzilVerif.Model.DriverHeap
open Rzil

def dispatch (st : DState) (line : String) : DState × String :=
  match Sexp.parse line with
  | none => (st, "(error bad-sexp)")
  | some (.list xs) =>
    match handleC04 xs with
    | some r => (st, toString r)
    | none =>
      match handleText st xs with
      | some (st', r) => (st', toString r)
      | none =>
        match handleC18 xs with
        | some r => (st, toString r)
        | none =>
          match handlePP xs with
          | some r => (st, toString r)
          | none =>
            match handleSem st xs with
            | some r => (st, toString r)
            | none =>
              match handleMeta xs with
              | some r => (st, toString r)
              | none =>
                match Operands.handleOperands xs with
                | some r => (st, toString r)
                | none =>
                  match Operands.handleEnum xs with
                  | some r => (st, toString r)
                  | none =>
                    match handleLayout xs with
                    | some r => (st, toString r)
                    | none =>
                      match handleHeap xs with
                      | some r => (st, toString r)
                      | none => (st, "(error bad-request)")
  | some _ => (st, "(error bad-request)")

partial def loop (hin : IO.FS.Stream) (hout : IO.FS.Stream) (st : DState) : IO Unit := do
  let line ← hin.getLine
  if line.isEmpty then return ()
  let (st', out) := dispatch st line
  hout.putStrLn out
  loop hin hout st'

def main : IO Unit := do
  let hin ← IO.getStdin
  let hout ← IO.getStdout
  loop hin hout {}
  hout.flush
