import RzilVerif.Model.Sexp
import RzilVerif.Model.DriverC04
open Rzil

def dispatch (line : String) : String :=
  match Sexp.parse line with
  | none => "(error bad-sexp)"
  | some (.list xs) =>
    match handleC04 xs with
    | some r => toString r
    | none => "(error bad-request)"
  | some _ => "(error bad-request)"

partial def loop (hin : IO.FS.Stream) (hout : IO.FS.Stream) : IO Unit := do
  let line ← hin.getLine
  if line.isEmpty then return ()
  hout.putStrLn (dispatch line)
  loop hin hout

def main : IO Unit := do
  let hin ← IO.getStdin
  let hout ← IO.getStdout
  loop hin hout
  hout.flush
