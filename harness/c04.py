"""C04 — common type and promotion are exactly the C11 table.

Theorems: lean/RzilVerif/Props/C04.lean (all widths).  Tie: exhaustive correspondence of the Lean
`c11Cast`/`promoted`/`eqv` with the real `c11_cast`/`promoted_type`/`ValueType.__eq__`, observing the
sign and width of the results *and the argument objects after the call*.
"""
from __future__ import annotations

import multiprocessing as mp
import random

from common import *  # noqa

PROP = "C04"
WIDTHS12 = [1, 2, 4, 8, 16, 32, 64, 128, 256, 512, 1024, 2048]
GROUPS = [1, 1 | 2, 1 | 64, 1 | 4]  # PURE, PURE|BOOL, PURE|CONST, PURE|HYBRID_LVAR


def _mk(t):
    from rzilcompiler.Transformer.ValueType import ValueType, VTGroup

    return ValueType(bool(t[0]), t[1], VTGroup(t[2]))


def _snap(v):
    return (int(bool(v._signed)), int(v._bit_width), int(v.group.value))


def real_c11(ta, tb):
    """Observation of one real call: results' sign/width, argument mutation, determinism."""
    from rzilcompiler.Transformer.ValueType import c11_cast

    a, b = _mk(ta), _mk(tb)
    try:
        ra, rb = c11_cast(a, b)
    except Exception as e:  # totality
        return ("raise", type(e).__name__)
    mutated = _snap(a) != tuple(ta) or _snap(b) != tuple(tb)
    r1 = (_snap(ra)[:2], _snap(rb)[:2])
    # callers do mutate returned types in place (e.g. simplify_unary_expr sets `.signed = True`): the
    # next call must not see that (results must not be shared between calls)
    try:
        ra.signed = not ra._signed
        rb.bit_width = rb._bit_width + 1
    except Exception:
        pass
    a2, b2 = _mk(ta), _mk(tb)
    ra2, rb2 = c11_cast(a2, b2)
    det = (_snap(ra2)[:2], _snap(rb2)[:2]) == r1
    return ("ok", r1, mutated, det)


def real_promoted(ta):
    from rzilcompiler.Transformer.ValueType import promoted_type

    a = _mk(ta)
    try:
        r = promoted_type(a)
    except Exception as e:
        return ("raise", type(e).__name__)
    return ("ok", _snap(r)[:2], _snap(a) != tuple(ta))


def c_common(ta, tb):
    """Independent statement of C11 6.3.1.8 with rank = width (used only to word the violation)."""
    (sa, wa), (sb, wb) = ta[:2], tb[:2]
    if sa == sb:
        return (sa, max(wa, wb))
    (ss, ws), (su, wu) = ((sa, wa), (sb, wb)) if sa else ((sb, wb), (sa, wa))
    return (0, wu) if wu >= ws else (1, ws)


def _row_worker(args):
    """Real side of the row hash: all (sb, wb) for a fixed a."""
    repo, sa, wa, wmax = args
    import os, sys

    os.chdir(repo)
    sys.path.insert(0, repo)
    from rzilcompiler.Transformer.ValueType import ValueType, c11_cast

    h = fnv_init()
    bad = None
    for sb in (False, True):
        for wb in range(1, wmax + 1):
            a = ValueType(bool(sa), wa)
            b = ValueType(sb, wb)
            ra, rb = c11_cast(a, b)
            if (a._signed, a._bit_width, b._signed, b._bit_width) != (bool(sa), wa, sb, wb) and bad is None:
                bad = (sa, wa, int(sb), wb)
            h = roll(h, int(ra._signed) + 2 * ra._bit_width)
            h = roll(h, int(rb._signed) + 2 * rb._bit_width)
    return (sa, wa, h, bad)


def run(tier: str, replay=None) -> int:
    res = Result(PROP, tier)
    rng = random.Random(seed() * 7919 + 4)
    use_repo()

    # ---- enumerate the domain ------------------------------------------------------------
    types96 = [(s, w, g) for w in WIDTHS12 for s in (0, 1) for g in GROUPS]
    pairs = [(a, b) for a in types96 for b in types96]
    exhaustive_n = len(pairs)
    nrand = 20000 if tier == "quick" else 100000
    for _ in range(nrand):
        pairs.append(
            ((rng.randint(0, 1), rng.randint(1, 2048), rng.choice(GROUPS)), (rng.randint(0, 1), rng.randint(1, 2048), rng.choice(GROUPS)))
        )
    if replay:
        rp = json.load(open(replay))
        if "a" in rp and "b" in rp:
            pairs = [(tuple(rp["a"]), tuple(rp["b"]))]
            exhaustive_n = 0
    singles = sorted({p[0] for p in pairs} | {(s, w, 1) for s in (0, 1) for w in range(1, 80)})

    def search_real() -> int:
        """Failing-input search on the real code alone, by the property's own predicate."""
        n = 0
        for ta, tb in pairs:
            ob = real_c11(ta, tb)
            want = c_common(ta, tb)
            why = None
            if ob[0] != "ok":
                why = f"not total: raises {ob[1]}"
            elif ob[2]:
                why = "argument object modified by the call"
            elif not ob[3]:
                why = "not deterministic"
            elif ob[1][0] != want or ob[1][1] != want:
                why = f"result {ob[1]} is not the C11 common type {want}"
            else:
                ob2 = real_c11(tb, ta)
                if ob2[0] == "ok" and (ob2[1][0], ob2[1][1]) != (ob[1][1], ob[1][0]):
                    why = "not symmetric"
            if why:
                res.violation({"what": why, "a": ta, "b": tb, "real": ob, "c11_common": want,
                               "reproduce": f"c11_cast(ValueType{ta}, ValueType{tb})"})
                n += 1
                if n >= 3:
                    return n
        for ta in singles:
            ob = real_promoted(ta)
            want = (1, 32) if ta[1] < 32 else tuple(ta[:2])
            if ob[0] != "ok" or ob[1] != want or ob[2]:
                res.violation({"what": f"promoted_type{ta} gives {ob}, C11 promotion gives {want}", "a": ta})
                n += 1
                if n >= 3:
                    return n
        return n

    st = prepare(PROP)
    if not proof_gate(res, st, search_real):
        return res.finish(TB, CHECKER)

    # ---- correspondence --------------------------------------------------------------------
    drv = Driver()
    reqs = [sx(["c11cast", list(a), list(b)]) for a, b in pairs]
    reqs += [sx(["promoted", list(a)]) for a in singles]
    eq_pairs = pairs[:: max(1, len(pairs) // 3000)]
    reqs += [sx(["eqv", list(a), list(b)]) for a, b in eq_pairs]
    replies = drv.run(reqs)
    mismatches = 0
    nontrivial = set()
    samples = []
    for i, (ta, tb) in enumerate(pairs):
        m = parse_sx(replies[i])
        mra, mrb = (int(m[0][0]), int(m[0][1])), (int(m[1][0]), int(m[1][1]))
        ob = real_c11(ta, tb)
        if ta[:2] != tb[:2]:
            nontrivial.add((ta[:2], tb[:2]))
        if len(samples) < 4 and i % 1777 == 5:
            samples.append({"a": ta, "b": tb, "real": ob, "model": [mra, mrb]})
        good = ob[0] == "ok" and ob[1] == (mra, mrb) and not ob[2] and ob[3]
        if not good:
            mismatches += 1
            if mismatches <= 3:
                want = c_common(ta, tb)
                why = ("raises" if ob[0] != "ok" else "argument modified" if ob[2] else "nondeterministic" if not ob[3]
                       else f"real {ob[1]} vs model {(mra, mrb)} (= C11 common type {want} by theorem c11Cast_eq_common)")
                res.violation({"what": "c11_cast: " + why, "a": ta, "b": tb, "real": ob, "model": [mra, mrb],
                               "reproduce": f"from rzilcompiler.Transformer.ValueType import *; c11_cast(ValueType({bool(ta[0])},{ta[1]}), ValueType({bool(tb[0])},{tb[1]}))"})
    off = len(pairs)
    for j, ta in enumerate(singles):
        m = parse_sx(replies[off + j])
        mr = (int(m[0]), int(m[1]))
        ob = real_promoted(ta)
        if not (ob[0] == "ok" and ob[1] == mr and not ob[2]):
            mismatches += 1
            if mismatches <= 3:
                res.violation({"what": f"promoted_type: real {ob} vs model {mr}", "a": ta})
    off += len(singles)
    for j, (ta, tb) in enumerate(eq_pairs):
        real_eq = bool(_mk(ta) == _mk(tb))
        if real_eq != (replies[off + j].strip() == "1"):
            mismatches += 1
            if mismatches <= 3:
                res.violation({"what": f"ValueType.__eq__: real {real_eq} vs model", "a": ta, "b": tb})

    # ---- the consumers of the table: which common type the lowering really uses for a pair of operand types, with variables
    # and with literals of every suffix on either side (the observation is the emitted tree = the conversions inserted; values
    # are C02/C03's business)
    import semprops
    cps = semprops.common_type_programs()
    if tier == "quick":
        import random as _r
        _r.Random(seed() * 31 + 4).shuffle(cps)
        cps = cps[:240]
    vi = semprops.common_type_value_independence()
    if tier == "quick":
        import random as _r
        folded = [a for a in vi if len(a) == 1]
        _r.Random(seed() * 37 + 4).shuffle(folded)
        vi = folded[:260] + [a for a in vi if len(a) > 1]
    cps = cps + vi
    ties = semprops.tree_ties(cps) if not replay else []
    rc_ = __import__("realcode"); rc_.close_pool()
    tie_bad = [t for t in ties if t[1] == "ok" and t[2] is False]
    for src, _, _, model, real in tie_bad[:3]:
        mismatches += 1
        res.violation({"what": "the conversions the lowering inserts for this pair of operand types are not those of the common-type table (real tree differs from the lowering model's tree)",
                       "program": src, "model": (model or "")[:1500], "real": (real or "")[:1500],
                       "reproduce": f"Compiler(ArchEnum.HEXAGON).compile_c_stmt({src!r})"})
    rows = 0
    if tier == "thorough" and not replay:
        wmax = 2048
        tasks = [(REPO, s, w, wmax) for s in (0, 1) for w in range(1, wmax + 1)]
        rows = len(tasks)
        row_reqs = [sx(["c11row", [t[1], t[2], 1], wmax]) for t in tasks]
        model_rows = drv.run(row_reqs)
        with mp.Pool(16) as pool:
            real_rows = pool.map(_row_worker, tasks, chunksize=32)
        for t, mr, rr in zip(tasks, model_rows, real_rows):
            if rr[3] is not None:
                mismatches += 1
                res.violation({"what": "c11_cast modified an argument", "case": rr[3]})
            if int(mr) != rr[2]:
                mismatches += 1
                # drill down to the first differing pair of this row
                for sb in (0, 1):
                    for wb in range(1, wmax + 1):
                        ta, tb = (t[1], t[2], 1), (sb, wb, 1)
                        ob = real_c11(ta, tb)
                        want = c_common(ta, tb)
                        if ob[0] != "ok" or ob[1] != (want, want):
                            res.violation({"what": f"c11_cast real {ob} vs C11 common {want}", "a": ta, "b": tb})
                            break
                    else:
                        continue
                    break
                if mismatches > 3:
                    break

    res.coverage.update(
        {
            "evaluations": len(pairs) + len(singles) + len(eq_pairs) + rows * 4096,
            "distinct_nontrivial": len(nontrivial) + (rows * 4096 if rows else 0),
            "rule": "every ordered pair over the 96 producible types (12 widths x sign x {PURE,BOOL,CONST,HYBRID_LVAR}) plus seeded random pairs in 1..2048; thorough adds all 4096^2 (sign,width) pairs over widths 1..2048 via per-row hashes; non-trivial = the two types differ in sign or width",
            "exhaustive": True,
            "exhaustive_pairs": exhaustive_n,
            "rows_hashed": rows,
            "mismatches": mismatches, "expression_level_programs": len(ties), "expression_level_accepted": len([t for t in ties if t[1] == "ok"]),
            "samples": samples,
        }
    )
    res.assumptions += [
        "EXTERNAL/VOID/float types are outside the property (the real functions raise on them)",
        "result flags (VTGroup) are not part of the observation for C04; they are observed through C10's correspondence",
    ]
    return res.finish(TB, CHECKER)


TB = [
    "Lean 4.33 kernel; axioms propext, Classical.choice, Quot.sound (audited per theorem)",
    "harness/c04.py (calls the real functions, diffs against the driver)",
    "Lean compiler for running the model in the driver",
]
CHECKER = "cd lean && lake build RzilVerif.Props.C04 && lake env lean .lake/audit/Audit_RzilVerif_Props_C04.lean"
