#!/bin/sh
# usage: seedverify.sh <Cxx> <i>   — independently confirm a seeded change in a scratch worktree:
#   demo passes on the clean tree, fails with the patch, and the pinned test suite result is unchanged.
P=$1; I=$2
SRC=/tmp/seed/$P
WT=/tmp/wtv/$P-$I
rm -rf $WT; mkdir -p /tmp/wtv
git -C /repo worktree add -q --detach $WT HEAD || exit 3
cd $WT
CLEAN=$(PYTHONPATH=$WT timeout 900 /venv/bin/python $SRC/demo$I.py >/tmp/wtv/$P-$I.clean.log 2>&1; echo $?)
git apply $SRC/patch$I.diff || { echo "$P $I PATCH-DOES-NOT-APPLY"; git -C /repo worktree remove --force $WT; exit 3; }
PATCHED=$(PYTHONPATH=$WT timeout 900 /venv/bin/python $SRC/demo$I.py >/tmp/wtv/$P-$I.patched.log 2>&1; echo $?)
TESTS=$(PYTHONPATH=$WT timeout 1800 /venv/bin/python -m pytest -q -p no:cacheprovider --timeout=900 2>&1 | tail -1)
echo "$P $I demo_clean_rc=$CLEAN demo_patched_rc=$PATCHED tests='$TESTS'"
cd /; git -C /repo worktree remove --force $WT
