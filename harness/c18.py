"""C18 — pooled parsing equals sequential parsing and isolates failures.

Theorems (lean/RzilVerif/Props/C18.lean, for every schedule = every permutation of task indices):
pool_eq_seq_imap, pool_eq_seq_unordered, one_entry_per_name*, parts_kept, failure_empties,
failure_isolated, entry_is_own_result.
Tie: the real `Parser.parse` is run on random subsets of corpus behaviours with broken behaviours injected,
under pool sizes 1..16 and seed-derived per-task delays (forcing out-of-order completion); its result is
compared with the Lean model `poolRunImap` instantiated with the outcome table of sequential in-process
parsing.  The OS decides the real interleavings: they are sampled, and labelled as sampled.
"""
from __future__ import annotations

import functools
import hashlib
import multiprocessing
import random
import time

from common import *  # noqa
import realcode as rc

PROP = "C18"
TB = [
    "Lean 4.33 kernel; axioms propext, Classical.choice, Quot.sound (audited per theorem)",
    "model Model/Pool.lean: the pool as an arbitrary completion order + imap collector; dict.update on insertion-ordered dicts",
    "harness: outcome table by sequential in-process parsing, pool size/delay injection by replacing rzilcompiler.Parser.Pool / parse_single in the harness process (fork)",
    "real interleavings are whatever the OS gives under injected delays (sampled); worker crashes (not exceptions) are not modelled",
]

BROKEN = ["{", "{ RdV = ; }", "{ RdV = RsV + ; }", "{ RdV = (RsV; }", "{ RdV = RsV @ 1; }", "}{", "{ if RsV { RdV = 1; } }", "{ RdV = RsV }"]

_delay_seed = 0


def _slow_parse_single(bundle):
    """Same-named wrapper around the real parse_single: sleeps a seed-derived time first."""
    import rzilcompiler.Parser as P

    h = int(hashlib.sha1(f"{_delay_seed}:{bundle.name}".encode()).hexdigest()[:6], 16)
    time.sleep((h % 7) * 0.012)
    return P._orig_parse_single(bundle)


def tree_digest(t) -> str:
    return hashlib.sha1(str(t).encode()).hexdigest()


def run(tier: str, replay=None) -> int:
    global _delay_seed
    res = Result(PROP, tier)
    st = prepare(PROP)
    res.proof = st
    use_repo()
    import rzilcompiler.Parser as P

    rng = random.Random(seed() * 977 + 18)
    beh = rc.load_behaviours()
    short = sorted(n for n, b in beh.items() if sum(len(x) for x in b) < 160 and not n.startswith("V6_"))
    compounds = sorted(n for n, b in beh.items() if len(b) > 1 and sum(len(x) for x in b) < 420)
    longs = sorted(n for n, b in beh.items() if len(b) == 1 and 500 < len(b[0]) < 900 and not n.startswith("V6_"))
    rounds = 5 if tier == "quick" else 24
    pool_sizes = [1, 2, 3, 8, 16] if tier == "quick" else [1, 2, 3, 4, 5, 6, 7, 8, 9, 10, 11, 12, 13, 14, 15, 16]

    if not hasattr(P, "_orig_parse_single"):
        P._orig_parse_single = P.parse_single
        P._orig_Pool = P.Pool
    seq_parser = rc.compiler().parser  # the in-process parser (same grammar, same options)

    viol = []
    evals = 0
    samples = []
    sched_seen = set()
    inj_total = 0
    for rd in range(rounds):
        # one round is LARGE (work may be handed out in batches once there are many tasks per core)
        big = (rd == 1)
        n = rng.randint(8, 20) if not big else 9 * (os.cpu_count() or 16)
        names = rng.sample(short, min(n, len(short))) + rng.sample(compounds, min(3, len(compounds)))
        rng.shuffle(names)
        tasks = {}
        for nm in names:
            parts = list(beh[nm])
            tasks[nm] = parts
        # skewed compounds: a slow (long) first part followed by a fast one, so that parts of one entry complete out of
        # order under any task granularity (not only under the per-instruction delays injected below)
        for k in range(3):
            slow = beh[rng.choice(longs)][0]
            fast = beh[rng.choice(short)][0]
            tasks[f"SKEW_{rd}_{k}"] = [slow, fast] if k < 2 else [fast, slow, fast]
        # the same text under several names, and the same text split differently: a compound [p1, p2], a twin with the
        # same parts, and a single-part behaviour whose text is p1 + p2 (the start rule accepts a statement sequence)
        for k, cn in enumerate(rng.sample(compounds, min(2, len(compounds)))):
            parts = list(beh[cn])
            tasks[f"TWIN_{rd}_{k}"] = list(parts)
            tasks[f"JOIN_{rd}_{k}"] = ["".join(parts)]
            tasks[cn] = parts
        one = beh[rng.choice(short)][0]
        tasks[f"SAME_{rd}_a"] = [one]
        tasks[f"SAME_{rd}_b"] = [one]
        # inject broken behaviours: whole-broken, broken later part after a good one, broken first part
        for k in range(rng.randint(1, 4) if not big else 12):
            kind = rng.choice(["single", "second", "first"])
            good = beh[rng.choice(short)][0]
            bad = rng.choice(BROKEN)
            nm = f"BROKEN_{rd}_{k}"
            tasks[nm] = [bad] if kind == "single" else ([good, bad] if kind == "second" else [bad, good])
            inj_total += 1
        tasks[f"EMPTY_{rd}"] = []   # an instruction without parts: one entry, no trees, no error
        # instructions with many parts (11, 12, 25): part j's tree is the tree of text j
        for npar in (11, 12, 25):
            tasks[f"MANY{npar}_{rd}"] = ["{ RdV = RsV + %d; }" % (j_ * 3 + npar) for j_ in range(npar)]
        items = list(tasks.items())
        rng.shuffle(items)
        tasks = dict(items)
        if replay:
            rp = json.load(open(replay))
            if "tasks" in rp:
                tasks = {k: v for k, v in rp["tasks"]}
        # outcome table: sequential in-process parsing
        table = {}
        ids = {}
        for nm, parts in tasks.items():
            for ptxt in parts:
                if ptxt in table:
                    continue
                try:
                    d = tree_digest(seq_parser.parse(ptxt))
                    table[ptxt] = ("ok", ids.setdefault(d, len(ids)))
                except Exception as e:
                    table[ptxt] = ("err", type(e).__name__)
        psize = pool_sizes[rd % len(pool_sizes)] if not replay else json.load(open(replay)).get("pool_size", 4)
        _delay_seed = seed() * 131 + rd
        P.Pool = functools.partial(multiprocessing.get_context("fork").Pool, psize)
        P.parse_single = _slow_parse_single
        try:
            # the parts of an entry are a sequence: lists (what the loader stores) and, in the rounds without the in-place edits
            # below, tuples (what split_compounds returns) for a random half of the entries
            passed = dict(tasks)
            if rd not in (0, 2) and not replay:
                passed = {nm: (tuple(v) if rng.random() < 0.5 else v) for nm, v in tasks.items()}
            elif replay and json.load(open(replay)).get("tuples"):
                passed = {nm: (tuple(v) if nm in set(json.load(open(replay))["tuples"]) else v) for nm, v in tasks.items()}
            with rc.quiet():
                real = P.Parser.parse(passed)
        finally:
            P.Pool = P._orig_Pool
            P.parse_single = P._orig_parse_single
        evals += 1
        sched_seen.add((psize, _delay_seed))
        # canonical real result
        real_c = []
        for nm, pi in real.items():
            trees = []
            for t in pi.asts:
                trees.append(ids.get(tree_digest(t), -1))
            real_c.append([nm, pi.name, trees, len(pi.behaviors), pi.exception.name if pi.exception else "none"])
        order = list(range(len(tasks)))
        rng.shuffle(order)
        req = sx(["pool", "imap", ["order"] + order] + [
            ["task", Q(nm)] + [["part", Q(p), ["ok", table[p][1]] if table[p][0] == "ok" else ["err", table[p][1]]] for p in parts]
            for nm, parts in tasks.items()])
        rep = parse_sx(Driver().run([req])[0])
        model_c = [[e[0].s, e[1].s, [int(x) for x in e[2]], int(e[3]), (e[4].s if isinstance(e[4], Q) else e[4])] for e in rep]
        if len(samples) < 2:
            samples.append({"pool_size": psize, "tasks": len(tasks), "entries": real_c[:3]})
        if sorted(real_c) != sorted(model_c) or [e[0] for e in real_c] != [e[0] for e in model_c]:
            # property predicates on the real result alone
            why = []
            rd_real = {e[0]: e for e in real_c}
            rd_model = {e[0]: e for e in model_c}
            if len(real_c) != len(rd_real) or set(rd_real) != set(tasks):
                why.append("not exactly one entry per instruction name")
            for nm in tasks:
                if nm in rd_real and rd_real[nm] != rd_model.get(nm):
                    why.append(f"{nm}: pooled {rd_real[nm]} vs sequential {rd_model.get(nm)}")
            if not why:
                why.append("entry order differs from task order")
            viol.append({"what": why[:4], "pool_size": psize, "tasks": list(tasks.items()), "delay_seed": _delay_seed,
                         "tuples": [nm for nm, v in passed.items() if isinstance(v, tuple)],
                         "reproduce": "replace rzilcompiler.Parser.Pool by functools.partial(multiprocessing.Pool, pool_size) and call Parser.parse(dict(tasks)); compare with in-process parsing of each part"})
        if replay:
            break
        # a second call in the same process after the caller changed its table IN PLACE (same list objects): the result must be
        # that of the table as it is now
        if rd in (0, 2):
            tasks2 = tasks
            keys = list(tasks2)
            edits = []
            for nm in rng.sample(keys, min(6, len(keys))):
                kind = rng.choice(["replace", "break", "repair", "append", "drop"])
                parts = tasks2[nm]
                if not parts and kind in ("replace", "break"):
                    kind = "append"      # an entry without parts
                if kind == "replace":
                    parts[0] = beh[rng.choice(short)][0]
                elif kind == "break":
                    parts[-1] = rng.choice(BROKEN)
                elif kind == "repair":
                    for j_, p_ in enumerate(parts):
                        if table.get(p_, ("ok",))[0] == "err":
                            parts[j_] = beh[rng.choice(short)][0]
                elif kind == "append":
                    parts.append(beh[rng.choice(short)][0])
                elif kind == "drop" and len(parts) > 1:
                    parts.pop()
                edits.append((nm, kind))
            for nm, parts in tasks2.items():
                for ptxt in parts:
                    if ptxt not in table:
                        try:
                            d = tree_digest(seq_parser.parse(ptxt))
                            table[ptxt] = ("ok", ids.setdefault(d, len(ids)))
                        except Exception as e:
                            table[ptxt] = ("err", type(e).__name__)
            P.Pool = functools.partial(multiprocessing.get_context("fork").Pool, psize)
            try:
                with rc.quiet():
                    real2 = P.Parser.parse(tasks2)
            finally:
                P.Pool = P._orig_Pool
            evals += 1
            for nm, parts in tasks2.items():
                pi = real2.get(nm)
                want_err = next((table[p_][1] for p_ in parts if table[p_][0] == "err"), None)
                got = None if pi is None else ([ids.get(tree_digest(t), -1) for t in pi.asts], pi.exception.name if pi.exception else None)
                want = ([] if want_err else [table[p_][1] for p_ in parts], want_err)
                if got is None or got[1] != want[1] or got[0] != want[0]:
                    viol.append({"what": [f"second Parser.parse call after in-place edits {edits}: entry {nm} is {got}, sequential parsing of the table as it is now gives {want}"],
                                 "pool_size": psize, "tasks": list(tasks2.items()),
                                 "reproduce": "call Parser.parse(table), edit the listed entries of the SAME dict/list objects in place, call Parser.parse(table) again"})
                    break

    def search():
        for v in viol[:3]:
            res.violation(v)
        return len(viol)

    if proof_gate(res, st, search):
        for v in viol[:3]:
            res.violation(v)
    rc.close_pool()
    res.coverage.update({
        "evaluations": evals, "distinct_nontrivial": len(sched_seen),
        "rule": "one evaluation = one real Parser.parse run over 9-27 tasks (random corpus behaviours, compounds, injected broken behaviours) under a pool size and per-task delay seed; distinct = distinct (pool size, delay seed); non-trivial = contains at least one failing and one multi-part task",
        "pool_sizes": pool_sizes, "injected_failures": inj_total, "violations_total": len(viol), "samples": samples,
    })
    res.assumptions.append("the sampled OS schedules stand for 'every schedule'; the theorems cover all completion orders of the model")
    return res.finish(TB, "cd lean && lake build RzilVerif.Props.C18")
