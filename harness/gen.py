"""Type-directed generator of programs of the shortcode dialect, as ASTs with their C types.

Every random choice derives from the `random.Random` handed in.  `features(prog)` computes the
syntactic carve-out classes a program falls into (the constructs on which the unchanged compiler is
known to deviate, DESIGN.md section 6); the "clean" stream is the generator conditioned on an empty
feature set.  `invalid_stream` produces malformed / unsupported programs.

Expression nodes (tuples):
  ('reg', name, ty) ('imm', name, ty) ('lit', text, value, ty) ('var', name, ty)
  ('cast', tyname, ty, e) ('un', op, e) ('bin', op, a, b) ('shift', op, a, b) ('cmp', op, a, b)
  ('log', op, a, b) ('not', e) ('tern', c, a, b) ('macro', name, args, ty) ('call', name, args, ty)
  ('post', var, op) ('stmtexpr', tyname, ty, var, e) ('load', tyname, ty, signch, width)
  ('seqexpr', name, [ext tokens], [args], val)      ({ name(exts..., args...); val; })  -- name: a void sub-routine
  ('callx', name, [ext tokens], [args], ty)         name(exts..., args...) used as a value (XCALLS: get_usr_field, get_npc, fcirc_add);
                                                    a register token among the ext tokens (`RxV`) is handed over by reference
  ('xmacro', name, [ext tokens], ty)                name(exts...), a plugin macro of pass-through tokens (get_corresponding_CS(pkt, MuV))
Statement nodes:
  ('decl', tyname, ty, var, e|None) ('assign', lhs_expr, op, e) ('store', width, addr_expr|None, e)
  ('if', c, [stmts], [stmts]|None) ('for', var, bound_expr, [stmts]) ('jump', e) ('raw', text)
  ('exprstmt', e) ('block', [stmts]) ('vcall', name, [ext tokens], [args])   name(exts..., args...);
"""
from __future__ import annotations

import collections
import random
import re

INT_TYPES = [
    ("int8_t", (True, 8)), ("uint8_t", (False, 8)), ("int16_t", (True, 16)), ("uint16_t", (False, 16)),
    ("int32_t", (True, 32)), ("uint32_t", (False, 32)), ("int64_t", (True, 64)), ("uint64_t", (False, 64)),
]
ALT_SPELL = {"int32_t": ["int", "size4s_t"], "uint32_t": ["unsigned", "unsigned int", "size4u_t"],
             "int8_t": ["size1s_t"], "uint8_t": ["size1u_t"], "int16_t": ["size2s_t"], "uint16_t": ["size2u_t"],
             "int64_t": ["size8s_t"], "uint64_t": ["size8u_t"]}
SRC_REGS = [("RsV", (True, 32)), ("RtV", (True, 32)), ("RuV", (True, 32)), ("RvV", (True, 32)),
            ("RssV", (True, 64)), ("RttV", (True, 64)), ("PsV", (True, 8)), ("PtV", (True, 8)), ("PuV", (True, 8)),
            ("PvV", (True, 8)), ("MuV", (True, 32)), ("CsV", (True, 32))]
NEW_REGS = [("NsN", (True, 32)), ("NtN", (True, 32)), ("PtN", (True, 8)), ("PuN", (True, 8)), ("PvN", (True, 8))]
DEST_REGS = [("RdV", (True, 32)), ("RddV", (True, 64)), ("PdV", (True, 8)), ("ReV", (True, 32)), ("CdV", (True, 32))]
RW_REGS = [("RxV", (True, 32)), ("RxxV", (True, 64)), ("RyV", (True, 32)), ("PxV", (True, 8))]
EXPLICIT_REGS = [("P0", (True, 8)), ("P1", (True, 8)), ("P3", (True, 8)), ("R0", (True, 32)), ("R31", (True, 32)), ("R1:0", (True, 64)),
                 ("R31:30", (True, 64)), ("C1:0", (True, 64)), ("C11:10", (True, 64)), ("P0_NEW", (True, 8)), ("P1_NEW", (True, 8)), ("R2_NEW", (True, 32)),
                 ("R11", (True, 32)), ("R22", (True, 32)), ("R10", (True, 32)), ("C11", (True, 32))]
ALIAS_REGS = [("HEX_REG_ALIAS_SP", (False, 32)), ("HEX_REG_ALIAS_LR", (False, 32)), ("HEX_REG_ALIAS_FP", (False, 32)), ("HEX_REG_ALIAS_GP", (False, 32)),
              ("HEX_REG_ALIAS_LC0", (False, 32)), ("HEX_REG_ALIAS_SA0", (False, 32)), ("HEX_REG_ALIAS_PC", (False, 32)), ("HEX_REG_ALIAS_USR", (False, 32)),
              ("HEX_REG_ALIAS_UPCYCLE", (False, 64)), ("HEX_REG_ALIAS_LR_NEW", (False, 32))]
EXPLICIT_DESTS = [("P0", (True, 8)), ("P1", (True, 8)), ("P3", (True, 8)), ("R31", (True, 32)), ("R11", (True, 32)), ("R22", (True, 32)), ("HEX_REG_ALIAS_SP", (False, 32)), ("HEX_REG_ALIAS_LR", (False, 32)),
                  ("HEX_REG_ALIAS_LC0", (False, 32)), ("HEX_REG_ALIAS_SA0", (False, 32))]
IMMS = [("siV", True), ("uiV", False), ("riV", True), ("RiV", True), ("SiV", True), ("UiV", False), ("miV", False), ("niV", False)]
BINOPS = ["+", "-", "*", "&", "|", "^"]
CMPS = ["<", ">", "<=", ">=", "==", "!="]
ASSIGN_OPS = ["+=", "-=", "*=", "&=", "|=", "^=", "<<=", ">>="]
CALLS = [("clo32", [(False, 32)], (False, 32)), ("clz32", [(False, 32)], (False, 32)), ("clo64", [(False, 64)], (False, 64)),
         ("clz64", [(False, 64)], (False, 64)), ("revbit32", [(False, 32)], (False, 32)), ("revbit16", [(False, 16)], (False, 16)),
         ("fbrev", [(False, 32)], (False, 32)), ("conv_round", [(True, 32), (True, 32)], (True, 32))]
# registered sub-routines with return type void: (name, number of pass-through (external) parameters, value parameter types)
VOID_CALLS = [("set_usr_field", 2, [(False, 32)]), ("trap", 0, [(True, 32), (False, 32)])]
VOID_PARAMS = {n: ps for n, _, ps in VOID_CALLS}
# value calls with pass-through arguments in front: (name, number of pass-through parameters, value parameter types, return type)
XCALLS = [("get_usr_field", 2, [], (False, 32)), ("get_npc", 1, [], (False, 32)),
          ("fcirc_add", 2, [(True, 32), (True, 32), (True, 32)], (True, 32))]
XCALL_SIGS = {n: (k, ps, rt) for n, k, ps, rt in XCALLS}
USER_CALL_PARAMS = {}    # sub-routines a check registers through the public API: name -> parameter types
# plugin macros all of whose arguments are pass-through tokens: name -> (number of tokens, return type)
XMACROS = {"get_corresponding_CS": (2, (True, 32))}


def ext_token(t: str) -> str:
    """the text the compiler prints for a pass-through token: a register operand becomes its operand variable"""
    m = re.fullmatch(r"([A-Z][a-z]{1,2})V", t)
    return m.group(1) + "_op" if m else t


MACROS = [("sextract64", 3, (True, 64)), ("extract64", 3, (False, 64)), ("extract32", 3, (False, 32)),
          ("deposit32", 4, (False, 32)), ("deposit64", 4, (False, 64)), ("bswap32", 1, (False, 32)), ("bswap16", 1, (False, 16)),
          ("bswap64", 1, (False, 64))]
MACRO_PARAMS = {"sextract64": [(False, 64), (True, 32), (True, 32)], "extract64": [(False, 64), (True, 32), (True, 32)],
                "extract32": [(False, 32), (True, 32), (True, 32)], "deposit32": [(False, 32), (True, 32), (True, 32), (False, 32)],
                "deposit64": [(False, 64), (True, 32), (True, 32), (False, 64)], "bswap32": [(False, 32)], "bswap16": [(False, 16)],
                "bswap64": [(False, 64)]}


def promote(t):
    return t if t[1] >= 32 else (True, 32)


def common(a, b):
    a, b = promote(a), promote(b)
    if a[0] == b[0]:
        return (a[0], max(a[1], b[1]))
    s, u = (a, b) if a[0] else (b, a)
    return (False, u[1]) if u[1] >= s[1] else (True, s[1])


def ctype(e):
    k = e[0]
    if k in ("reg", "imm", "var"):
        return e[2]
    if k == "lit":
        return e[3]
    if k == "cast":
        return e[2]
    if k == "un":
        return promote(ctype(e[2]))
    if k == "bin":
        return common(ctype(e[2]), ctype(e[3]))
    if k == "shift":
        return promote(ctype(e[2]))
    if k in ("cmp", "log", "not"):
        return (True, 32)
    if k == "tern":
        return common(ctype(e[2]), ctype(e[3]))
    if k in ("macro", "call"):
        return e[3]
    if k == "post":
        return e[3] if len(e) > 3 else (False, 32)
    if k == "stmtexpr":
        return e[2]
    if k == "load":
        return e[2]
    if k == "seqexpr":
        return ctype(e[4])
    if k == "callx":
        return e[4]
    if k == "xmacro":
        return e[3]
    raise ValueError(k)


def is_boolish(e):
    return e[0] in ("cmp", "log", "not")


def src(e) -> str:
    k = e[0]
    if k in ("reg", "imm", "var"):
        return e[1]
    if k == "lit":
        return e[1]
    if k == "cast":
        return f"(({e[1]}){src(e[3])})"
    if k == "un":
        return f"({e[1]}{src(e[2])})"
    if k in ("bin", "shift", "cmp", "log"):
        return f"({src(e[2])} {e[1]} {src(e[3])})"
    if k == "not":
        return f"(!{src(e[1])})"
    if k == "tern":
        return f"({src(e[1])} ? {src(e[2])} : {src(e[3])})"
    if k in ("macro", "call"):
        return f"{e[1]}({', '.join(src(a) for a in e[2])})"
    if k == "post":
        return f"{e[1]}{e[2]}"
    if k == "stmtexpr":
        if len(e) > 5 and not e[5]:
            return f"({{ {e[3]} = {src(e[4])}; {e[3]}; }})"      # assigns an already declared local
        return f"({{ {e[1]} {e[3]} = {src(e[4])}; {e[3]}; }})"
    if k == "load":
        return f"(({e[1]})mem_load_{e[3]}{e[4]}(EA))"
    if k == "seqexpr":
        return f"({{ {e[1]}({', '.join(list(e[2]) + [src(a) for a in e[3]])}); {src(e[4])}; }})"
    if k == "callx":
        return f"{e[1]}({', '.join(list(e[2]) + [src(a) for a in e[3]])})"
    if k == "xmacro":
        return f"{e[1]}({', '.join(e[2])})"
    raise ValueError(k)


def stmt_src(s) -> str:
    k = s[0]
    if k == "decl":
        if s[4] is None:
            return f"{s[1]} {s[3]};"
        return f"{s[1]} {s[3]} = {src(s[4])};"
    if k == "assign":
        return f"{src(s[1])} {s[2]} {src(s[3])};"
    if k == "store":
        pre = "" if s[2] is None else f"EA = {src(s[2])}; "
        return f"{pre}mem_store_u{s[1]}(EA, {src(s[3])});"
    if k == "if":
        bare = s[4] if len(s) > 4 and s[4] else ()     # corpus texts: `if (c) stmt` without braces
        t = stmt_src(s[2][0]) if "then" in bare else "{ " + " ".join(stmt_src(x) for x in s[2]) + " }"
        if s[3] is None:
            return f"if ({src(s[1])}) {t}"
        e = stmt_src(s[3][0]) if "else" in bare else "{ " + " ".join(stmt_src(x) for x in s[3]) + " }"
        return f"if ({src(s[1])}) {t} else {e}"
    if k == "for":
        cond = f"{s[1]} < {src(s[2])}"
        if len(s) > 4 and s[4]:
            if s[4][0] == "andcmp":
                cond = f"({cond}) && {src(s[4][1])}"
            elif s[4][0] == "intand":
                cond = f"{src(s[4][1])} && {src(s[4][2])}"
            elif s[4][0] == "not":
                cond = f"!({s[1]} >= {src(s[2])})"
        step = f"{s[1]}++"
        if len(s) > 5 and s[5]:
            step = f"{s[1]} += {s[5]}" if s[5] % 2 else f"{s[1]} = {s[1]} + {s[5]}"
        return f"for ({s[1]} = 0; {cond}; {step}) {{ " + " ".join(stmt_src(x) for x in s[3]) + " }"
    if k == "chain":
        return f"{src(s[1])} = {src(s[2])} {s[3]} {src(s[4])};"
    if k == "jump":
        return f"JUMP({src(s[1])});"
    if k == "raw":
        return s[1]
    if k == "exprstmt":
        return f"{src(s[1])};"
    if k == "ret":
        return f"return {src(s[1])};"
    if k == "block":
        return "{ " + " ".join(stmt_src(x) for x in s[1]) + " }"
    if k == "vcall":
        return f"{s[1]}({', '.join(list(s[2]) + [src(a) for a in s[3]])});"
    raise ValueError(k)


def prog_src(stmts) -> str:
    if getattr(stmts, "bare", False):      # elab.TopSeq: a sequence of compound statements
        return " ".join(stmt_src(s) for s in stmts)
    return "{ " + " ".join(stmt_src(s) for s in stmts) + " }"


# ------------------------------------------------------------------------------------------------
# carve-out classes (syntactic): which known deviations of the unchanged compiler a program can trigger
# ------------------------------------------------------------------------------------------------

def _conv_risky(src_t, dst_t):
    """signed source widened into an unsigned target: the code zero-extends (Cast.il_exec)."""
    return src_t[0] and not dst_t[0] and src_t[1] < dst_t[1]


def expr_features(e, out: set, ctx="value"):
    """ctx: 'cond' when the expression is used as a condition (if/for/?:/&&/||/! operand)."""
    k = e[0]
    if is_boolish(e) and ctx == "value":
        out.add("bool_as_int")
    if k == "lit":
        v, (sg, w) = e[2], e[3]
        if v >= (1 << (w - 1 if sg else w)):
            out.add("big_literal")
        if str(e[1]).startswith("sizeof"):
            out.add("sizeof_typed_int")       # the code types sizeof st32, C gives size_t (64 bit unsigned)
    elif k == "load":
        # ((T)mem_load_s<w>(EA)): the loaded value is signed; widened into an unsigned T it is zero-extended by the code
        if e[3] == "s" and not e[2][0] and e[2][1] > e[4]:
            out.add("signed_widen_to_unsigned")
    elif k == "cast":
        expr_features(e[3], out)
        if _conv_risky(ctype(e[3]), e[2]):
            out.add("signed_widen_to_unsigned")
        if e[3][0] == "lit":
            out.add("literal_cast")
    elif k == "un":
        expr_features(e[2], out)
        if folds(e[2]):
            out.add("fold_unary")
        t = ctype(e[2])
        if _conv_risky(t, promote(t)):
            out.add("signed_widen_to_unsigned")
    elif k == "bin":
        a, b = e[2], e[3]
        expr_features(a, out)
        expr_features(b, out)
        if folds(a) and folds(b):
            out.add("fold_arith")
        ct = common(ctype(a), ctype(b))
        for x in (a, b):
            # the code converts promoted operands with c11_cast; conversion of a signed operand to a wider
            # unsigned common type zero-extends
            if _conv_risky(promote(ctype(x)), ct) or _conv_risky(ctype(x), promote(ctype(x))):
                out.add("signed_widen_to_unsigned")
    elif k == "shift":
        expr_features(e[2], out)
        expr_features(e[3], out)
        if ctype(e[2])[1] < 32:
            out.add("narrow_shift")
    elif k == "cmp":
        a, b = e[2], e[3]
        expr_features(a, out)
        expr_features(b, out)
        if folds(a) and folds(b):
            out.add("fold_cmp")
        ta, tb = ctype(a), ctype(b)
        if ta != tb:
            # no promotion in the code: c11_cast on the raw types
            if ta[1] < 32 and tb[1] < 32:
                out.add("cmp_unpromoted")
            elif (ta[1] < 32 or tb[1] < 32):
                nar, wid = (ta, tb) if ta[1] < tb[1] else (tb, ta)
                if _conv_risky(nar, wid):
                    out.add("signed_widen_to_unsigned")
            ct = common(ta, tb)
            for t in (ta, tb):
                if _conv_risky(t, ct):
                    out.add("signed_widen_to_unsigned")
        elif ta[1] < 32 and not ta[0]:
            pass  # equal unsigned narrow types: unsigned compare at that width = C's compare after promotion
    elif k == "log":
        a, b = e[2], e[3]
        expr_features(a, out, "cond")
        expr_features(b, out, "cond")
        if _has_hybrid(b):
            out.add("hybrid_in_logic_rhs")    # C evaluates the right operand only when needed
        if is_boolish(a) != is_boolish(b):
            out.add("logic_mixed")
        elif not is_boolish(a) and ctype(a) != ctype(b):
            ta, tb = ctype(a), ctype(b)
            # cast_operands without promotion: harmless for truth value unless a signed narrower operand is
            # zero-extended (still non-zero iff non-zero) -> truth value preserved; nothing to record
            pass
    elif k == "not":
        expr_features(e[1], out, "cond")
        if e[1][0] == "lit":
            out.add("fold_unary")
    elif k == "tern":
        c, a, b = e[1], e[2], e[3]
        expr_features(c, out, "cond")
        expr_features(a, out)
        expr_features(b, out)
        if folds(c):
            out.add("const_cond")
        for x in (a, b):
            if x[0] == "stmtexpr" and (len(x) <= 5 or x[5]):
                out.add("stmtexpr_arm_fresh_local")   # the arm's value local is set only inside the guarded statement
            if x[0] == "seqexpr":
                # the call is guarded by BRANCH, the value is pure: only hybrids inside the arguments / the value run unguarded
                if any(_has_hybrid(y) for y in x[3]) or _has_hybrid(x[4]):
                    out.add("hybrid_in_ternary_arm")
            elif _has_hybrid(x) and x[0] != "stmtexpr":
                out.add("hybrid_in_ternary_arm")
                if x[0] == "tern" and any(y[0] in ("stmtexpr", "seqexpr") for y in (x[2], x[3])):
                    # a statement-expression arm of an INNER ?: is guarded by the inner condition only
                    out.add("stmtexpr_in_nested_ternary_arm")
            if x[0] == "stmtexpr" and _has_hybrid(x[4]):
                out.add("hybrid_in_ternary_arm")
        ta, tb = ctype(a), ctype(b)
        if ta[1] < 32 and tb[1] < 32:
            out.add("ternary_unpromoted")     # C promotes the result to int; the code keeps the narrow type
        if ta != tb:
            ct = common(ta, tb)
            for t in (ta, tb):
                if _conv_risky(t, ct):
                    out.add("signed_widen_to_unsigned")
        out.discard("_bare_stmtexpr_guard")
    elif k in ("macro", "call"):
        params = MACRO_PARAMS.get(e[1]) or dict((c[0], c[1]) for c in CALLS).get(e[1]) or USER_CALL_PARAMS.get(e[1])
        for a, pt in zip(e[2], params):
            expr_features(a, out)
            if _conv_risky(ctype(a), pt):
                out.add("signed_widen_to_unsigned")
    elif k == "stmtexpr":
        expr_features(e[4], out)
        if _conv_risky(ctype(e[4]), e[2]):
            out.add("signed_widen_to_unsigned")
    elif k == "seqexpr":
        for a, pt in zip(e[3], VOID_PARAMS[e[1]]):
            expr_features(a, out)
            if _conv_risky(ctype(a), pt):
                out.add("signed_widen_to_unsigned")
        expr_features(e[4], out)
        if _has_hybrid(e[4]):
            # a pending call / postfix operation inside the VALUE is pulled in front of the whole statement-expression,
            # i.e. it runs BEFORE the void call although C evaluates it after
            out.add("hybrid_in_seqexpr_value")
    elif k == "callx":
        for a, pt in zip(e[3], XCALL_SIGS[e[1]][1]):
            expr_features(a, out)
            if _conv_risky(ctype(a), pt):
                out.add("signed_widen_to_unsigned")
    return out


def folds(e) -> bool:
    """Over-approximation of "the code's compile-time result is a LetVar with an int value" (Number or folded Bool)."""
    k = e[0]
    if k == "lit":
        return True
    if k == "un":
        return folds(e[2])
    if k == "bin":
        return e[1] in ("+", "-", "*", "/") and folds(e[2]) and folds(e[3])
    if k == "cmp":
        return folds(e[2]) and folds(e[3])
    if k == "tern":
        return folds(e[1]) and (folds(e[2]) or folds(e[3]))
    if k == "cast":
        return folds(e[3])      # a cast to the literal's own (suffix) type returns the literal itself
    return False


def _has_hybrid(e) -> bool:
    k = e[0]
    if k in ("call", "post", "stmtexpr", "seqexpr", "callx"):
        return True
    for x in e[1:]:
        if isinstance(x, tuple) and x and isinstance(x[0], str) and x[0] in _EXPR_KINDS and _has_hybrid(x):
            return True
        if isinstance(x, list):
            for y in x:
                if isinstance(y, tuple) and _has_hybrid(y):
                    return True
    return False


_EXPR_KINDS = {"reg", "imm", "lit", "var", "cast", "un", "bin", "shift", "cmp", "log", "not", "tern", "macro", "call", "post", "stmtexpr", "load", "seqexpr", "callx", "xmacro"}


def _bare_stmtexprs(e, under_tern_arm=False) -> bool:
    """a statement-expression that is not directly an arm of ?:"""
    k = e[0]
    if k == "stmtexpr":
        return (not under_tern_arm) or _bare_stmtexprs(e[4])
    if k == "seqexpr":
        return (not under_tern_arm) or any(_bare_stmtexprs(a) for a in e[3]) or _bare_stmtexprs(e[4])
    if k == "tern":
        return _bare_stmtexprs(e[1]) or _bare_stmtexprs(e[2], True) or _bare_stmtexprs(e[3], True)
    for x in e[1:]:
        if isinstance(x, tuple) and x and x[0] in _EXPR_KINDS and _bare_stmtexprs(x):
            return True
        if isinstance(x, list):
            for y in x:
                if isinstance(y, tuple) and y and y[0] in _EXPR_KINDS and _bare_stmtexprs(y):
                    return True
    return False


def stmt_features(s, out: set):
    k = s[0]
    if k == "decl":
        if s[4] is not None:
            expr_features(s[4], out)
            if _bare_stmtexprs(s[4]):
                out.add("stmt_expr_bare")
            if _conv_risky(ctype(s[4]), s[2]):
                out.add("signed_widen_to_unsigned")
    elif k == "assign":
        lhs, op, e = s[1], s[2], s[3]
        expr_features(e, out)
        if _bare_stmtexprs(e):
            out.add("stmt_expr_bare")
        lt = ctype(lhs)
        if op != "=":
            # the arithmetic / shift forms promote and do not convert back (listed finding); `&= |= ^=` work on the
            # target's own type and are as C prescribes
            if (lt[1] < 32 and op not in ("&=", "|=", "^=")) or op == "%=":
                out.add("narrow_compound")
            if op in ("<<=", ">>=") and ctype(e) != lt:
                pass
        if op not in ("%=", "<<=", ">>=") and _conv_risky(ctype(e), lt):
            out.add("signed_widen_to_unsigned")
    elif k == "chain":
        stmt_features(("assign", s[2], s[3], s[4]), out)
        if _conv_risky(ctype(s[2]), ctype(s[1])):
            out.add("signed_widen_to_unsigned")
        if s[3] not in ("=", "&=", "|=", "^=") and ctype(s[2])[1] < 32:
            out.add("narrow_compound")
    elif k == "store":
        if s[2] is not None:
            expr_features(s[2], out)
            if _conv_risky(ctype(s[2]), (False, 32)):
                out.add("signed_widen_to_unsigned")
        expr_features(s[3], out)
        if _bare_stmtexprs(s[3]) or (s[2] is not None and _bare_stmtexprs(s[2])):
            out.add("stmt_expr_bare")
        if _conv_risky(ctype(s[3]), (False, s[1])):
            out.add("signed_widen_to_unsigned")
    elif k == "if":
        expr_features(s[1], out, "cond")
        if _bare_stmtexprs(s[1]):
            out.add("stmt_expr_bare")
        if _has_hybrid(s[1]):
            out.add("hybrid_in_condition")
        for x in s[2]:
            stmt_features(x, out)
        for x in s[3] or []:
            stmt_features(x, out)
    elif k == "for":
        expr_features(s[2], out)
        if len(s) > 6 and s[6]:
            # a declared counter: the condition compares a typed local
            expr_features(("cmp", "<", ("var", s[1], tuple(s[6])), s[2]), out, "cond")
        if _has_hybrid(s[2]):
            out.add("call_in_loop_cond")
        if len(s) > 4 and s[4]:
            if s[4][0] == "andcmp":
                expr_features(s[4][1], out, "cond")
            elif s[4][0] == "intand":
                expr_features(s[4][1], out, "cond")
                expr_features(s[4][2], out, "cond")
                out.add("loop_may_not_terminate")
        for x in s[3]:
            stmt_features(x, out)
    elif k == "jump":
        expr_features(s[1], out)
        if _bare_stmtexprs(s[1]):
            out.add("stmt_expr_bare")
        if _conv_risky(ctype(s[1]), (False, 32)):
            out.add("signed_widen_to_unsigned")
    elif k == "exprstmt":
        expr_features(s[1], out)
        if _has_hybrid(s[1]):
            out.add("unused_hybrid")
        if _bare_stmtexprs(s[1]):
            out.add("stmt_expr_bare")
    elif k == "block":
        for x in s[1]:
            stmt_features(x, out)
    elif k == "vcall":
        for a, pt in zip(s[3], VOID_PARAMS[s[1]]):
            expr_features(a, out)
            if _conv_risky(ctype(a), pt):
                out.add("signed_widen_to_unsigned")
            if _bare_stmtexprs(a):
                out.add("stmt_expr_bare")
            if _has_hybrid(a):
                # the call statement is not checked for pending temporaries on its own: they are set at the front of
                # the enclosing block / of the behaviour
                out.add("unused_hybrid")
    return out


def _touches(s, v) -> bool:
    """does a statement (deeply) modify variable v by a hybrid or an assignment?"""
    if isinstance(s, list):
        return any(_touches(x, v) for x in s)
    if not isinstance(s, tuple) or not s:
        return False
    if s[0] == "post" and s[1] == v:
        return True
    if s[0] in ("assign",) and s[1][0] == "var" and s[1][1] == v:
        return True
    if s[0] == "chain" and any(l[0] == "var" and l[1] == v for l in (s[1], s[2])):
        return True
    if s[0] == "for" and s[1] == v:
        return True
    return any(_touches(x, v) for x in s[1:] if isinstance(x, (tuple, list)))


def _regs(x, reads: set, writes: set):
    """collect register names read / assigned anywhere in a statement or expression tree"""
    if isinstance(x, list):
        for y in x:
            _regs(y, reads, writes)
        return
    if not isinstance(x, tuple) or not x:
        return
    if x[0] == "assign":
        lhs = x[1]
        if lhs[0] == "reg":
            writes.add(lhs[1])
            if x[2] != "=":
                reads.add(lhs[1])
        _regs(x[3], reads, writes)
        return
    if x[0] == "chain":
        for lhs in (x[1], x[2]):
            if lhs[0] == "reg":
                writes.add(lhs[1])
        if x[2][0] == "reg":
            reads.add(x[2][1])
        _regs(x[4], reads, writes)
        return
    if x[0] == "reg":
        reads.add(x[1])
        return
    for y in x[1:]:
        if isinstance(y, (tuple, list)):
            _regs(y, reads, writes)


def _mods_reads(e, mods: list, reads: list):
    """variables modified by hybrids / read, within one full expression"""
    if not isinstance(e, tuple) or not e:
        return
    k = e[0]
    if k == "post":
        mods.append(e[1])
        return
    if k == "stmtexpr":
        mods.append(e[3])
        _mods_reads(e[4], mods, reads)
        return
    if k == "var":
        reads.append(e[1])
        return
    for x in e[1:]:
        if isinstance(x, tuple):
            _mods_reads(x, mods, reads)
        elif isinstance(x, list):
            for y in x:
                _mods_reads(y, mods, reads)


def _interference(e) -> bool:
    mods, reads = [], []
    _mods_reads(e, mods, reads)
    return len(mods) != len(set(mods)) or bool(set(mods) & set(reads))


def _stmt_exprs(s):
    k = s[0]
    if k == "decl":
        return [s[4]] if s[4] is not None else []
    if k == "assign":
        return [("bin", "+", s[1], s[3])] if s[1][0] == "var" else [s[3]]
    if k == "chain":
        return [("bin", "+", ("bin", "+", s[1], s[2]), s[4])]
    if k == "store":
        return [x for x in (s[2], s[3]) if x is not None]
    if k == "if":
        return [s[1]] + [e for x in s[2] + (s[3] or []) for e in _stmt_exprs(x)]
    if k == "for":
        return [s[2]] + [e for x in s[3] for e in _stmt_exprs(x)]
    if k in ("jump", "exprstmt", "ret"):
        return [s[1]]
    if k == "block":
        return [e for x in s[1] for e in _stmt_exprs(x)]
    if k == "vcall":
        return list(s[3])
    return []


def features(stmts) -> set:
    out = set()
    for s in stmts:
        stmt_features(s, out)
        if any(_interference(e) for e in _stmt_exprs(s)):
            out.add("unsequenced_interference")
    for s in stmts:
        if s[0] == "for" and any(_touches(x, s[1]) for x in s[3]):
            out.add("loop_var_modified_in_body")
    reads, writes = set(), set()
    _regs(list(stmts), reads, writes)
    for r in writes - reads:
        if r[1] in "yz":
            out.add("y_reg_unread")
    if any(":" in r for r in reads | writes):
        out.add("explicit_pair")
    return out


# features that matter per concern (others are irrelevant for that concern)
SORT_FEATURES = {"bool_as_int", "logic_mixed", "narrow_compound", "const_cond", "fold_cmp", "fold_unary"}
TEXT_FEATURES = {"const_cond", "stmt_expr_bare", "fold_cmp", "fold_arith", "fold_unary", "y_reg_unread"}


class Cfg:
    def __init__(self, **kw):
        self.max_depth = 3
        self.max_stmts = 5
        self.max_nest = 2
        self.hybrids = 0.10
        self.loops = 0.12
        self.ifs = 0.2
        self.mem = 0.12
        self.jumps = 0.05
        self.narrow = 0.5
        self.literals = 0.2
        self.new_regs = 0.05
        self.compound_assign = 0.25
        self.casts = 0.25
        self.alt_spelling = 0.15
        self.boolish_values = 0.15   # comparison/logical results in value positions
        self.explicit_regs = 0.07    # explicit / alias registers among the leaves and destinations
        self.chains = 0.12           # chained assignments a = b op= e
        self.op_names = 0.06         # locals named like the compiler's intermediate values
        self.__dict__.update(kw)


# base names the transformer gives its own ops (before the numeric suffix)
OP_LIKE_NAMES = ["cond", "branch", "seq", "seq_then", "seq_else", "empty", "nop", "op_ADD", "op_ASSIGN", "op_LT", "op_AND",
                 "cast_st32", "cast_ut8", "c_call", "gcc_expr", "imm_assign", "const_pos1", "op_INC", "op_RSHIFT", "ml_EA", "ms_cast_ut8"]


class Gen:
    def __init__(self, rng: random.Random, cfg: Cfg | None = None):
        self.r = rng
        self.c = cfg or Cfg()
        self.stats = collections.Counter()
        self.reset()

    def reset(self):
        self.locals: dict[str, tuple[bool, int]] = {}
        self.nvar = 0
        self.used_names = set()
        self.loop_vars = []
        self.need = set()
        self.favs = None

    def fresh(self):
        # a few locals are called like the compiler's own intermediate values (`cond`, `branch`, `seq`, ...):
        # a behaviour may use any identifier, and the names of ops must never capture a variable
        if self.r.random() < self.c.op_names:
            cand = [n for n in OP_LIKE_NAMES if n not in self.used_names]
            if cand:
                n = self.r.choice(cand)
                self.used_names.add(n)
                return n
        self.nvar += 1
        return f"v{self.nvar}"

    def tyname(self, t):
        if self.r.random() < self.c.alt_spelling and t[0] in ALT_SPELL:
            return self.r.choice(ALT_SPELL[t[0]])
        return t[0]

    def pick_type(self):
        if self.r.random() < self.c.narrow:
            return self.r.choice(INT_TYPES[:4])
        return self.r.choice(INT_TYPES[4:])

    def literal(self):
        self.stats["literal"] += 1
        r = self.r
        if r.random() < 0.55:
            v = r.choice([0, 1, 2, 3, 5, 7, 8, 0x10, 0x7f, 0x80, 0xff, 0x100, 0x7fff, 0x8000, 0xffff, 0x10000, 0x7fffffff])
        else:
            v = r.randint(0, 0x7fffffff)
        suffix = r.choice(["", "", "", "U", "LL", "ULL", "u", "ull"])
        if suffix.upper() in ("LL", "ULL") and r.random() < 0.4:
            v = r.choice([0x80000000, 0xffffffff, 0x100000000, 0x7fffffffffffffff, v])
        if suffix.upper() == "ULL" and r.random() < 0.1:
            v = 0xffffffffffffffff
        if suffix.upper() == "U" and r.random() < 0.3:
            v = r.choice([0x80000000, 0xffffffff, v])
        if suffix == "" and r.random() < 0.04:
            v = r.choice([0x80000000, 0xffffffff, 0x100000000])
        txt = hex(v) if r.random() < 0.5 else str(v)
        sg = suffix.upper() in ("", "LL")
        w = 64 if suffix.upper() in ("LL", "ULL") else 32
        return ("lit", txt + suffix, v, (sg, w))

    def small_lit(self, choices):
        v = self.r.choice(choices)
        return ("lit", str(v), v, (True, 32))

    def leaf(self):
        """heavy operand re-use: half of the leaves come from a small per-program pool"""
        r = self.r
        if self.favs is None:
            self.favs = []
            self.favs = [self._leaf() for _ in range(r.randint(2, 4))]
            if r.random() < 0.35:
                n, t = r.choice(EXPLICIT_REGS + ALIAS_REGS)
                self.favs.append(("reg", n, t))
        if self.favs and r.random() < 0.5:
            self.stats["leaf_reused"] += 1
            return r.choice(self.favs)
        return self._leaf()

    def _leaf(self):
        r = self.r
        x = r.random()
        if self.locals and x < 0.3 and self.favs != []:
            n = r.choice(sorted(self.locals))
            self.stats["local_read"] += 1
            return ("var", n, self.locals[n])
        if x < 0.3 + self.c.literals:
            return self.literal()
        if r.random() < self.c.explicit_regs:
            n, t = r.choice(EXPLICIT_REGS + ALIAS_REGS)
            self.stats["explicit_or_alias_read"] += 1
            return ("reg", n, t)
        if x < 0.3 + self.c.literals + self.c.new_regs:
            n, t = r.choice(NEW_REGS)
            self.stats["new_reg"] += 1
            return ("reg", n, t)
        if x < 0.64 + self.c.new_regs:
            n, t = r.choice(SRC_REGS)
            self.stats["reg_read"] += 1
            return ("reg", n, t)
        if x < 0.76:
            n, s = r.choice(IMMS)
            self.stats["imm"] += 1
            return ("imm", n, (s, 32))
        n, t = r.choice(RW_REGS)
        self.stats["rw_reg_read"] += 1
        return ("reg", n, t)

    def cond(self, depth):
        """an expression for a condition position"""
        r = self.r
        x = r.random()
        if depth <= 0 or x < 0.25:
            return self.expr(max(depth, 0))
        if x < 0.65:
            op = r.choice(CMPS)
            self.stats["cmp" + op] += 1
            return ("cmp", op, self.expr(depth - 1), self.expr(depth - 1))
        if x < 0.85:
            op = r.choice(["&&", "||"])
            self.stats["log" + op] += 1
            if r.random() < 0.5:
                return ("log", op, self.cond_strict(depth - 1), self.cond_strict(depth - 1))
            return ("log", op, self.expr(depth - 1), self.expr(depth - 1))
        self.stats["not"] += 1
        return ("not", self.cond(depth - 1))

    def cond_strict(self, depth):
        op = self.r.choice(CMPS)
        self.stats["cmp" + op] += 1
        return ("cmp", op, self.expr(max(depth - 1, 0)), self.expr(max(depth - 1, 0)))

    def expr(self, depth=None):
        r = self.r
        if depth is None:
            depth = self.c.max_depth
        if depth <= 0:
            return self.leaf()
        x = r.random()
        if x < 0.15:
            return self.leaf()
        if x < 0.15 + self.c.hybrids:
            return self.hybrid_expr(depth)
        if x < 0.15 + self.c.hybrids + self.c.boolish_values:
            self.stats["boolish_value"] += 1
            return self.cond(depth)
        x = r.random()
        if x < 0.34:
            op = r.choice(BINOPS)
            self.stats["bin" + op] += 1
            return ("bin", op, self.expr(depth - 1), self.expr(depth - 1))
        if x < 0.46:
            op = r.choice(["<<", ">>"])
            a = self.expr(depth - 1)
            wa = promote(ctype(a))[1]
            amt = self.small_lit([0, 1, 2, 3, 4, 7, 8, 15, 16, 31] + ([32, 33, 63] if wa == 64 else []))
            self.stats["shift" + op] += 1
            return ("shift", op, a, amt)
        if x < 0.54:
            op = r.choice(["-", "~"])
            self.stats["un" + op] += 1
            return ("un", op, self.expr(depth - 1))
        if x < 0.54 + self.c.casts:
            t = r.choice(INT_TYPES)
            self.stats["cast"] += 1
            return ("cast", self.tyname(t), t[1], self.expr(depth - 1))
        if x < 0.93:
            self.stats["ternary"] += 1
            return ("tern", self.cond(depth - 1), self.expr(depth - 1), self.expr(depth - 1))
        if x < 0.98:
            name, n, rt = r.choice(MACROS)
            self.stats["macro_" + name] += 1
            a = self.expr(depth - 1)
            if n == 1:
                return ("macro", name, [a], rt)
            width = 64 if "64" in name else 32
            length = r.randint(1, width - 1)
            start = r.randint(0, width - length)
            args = [a, self.small_lit([start]), self.small_lit([length])]
            if n == 4:
                args.append(self.expr(depth - 1))
            return ("macro", name, args, rt)
        t = r.choice(INT_TYPES)
        self.stats["load"] += 1
        self.need.add("EA")
        return ("load", self.tyname(t), t[1], "s" if t[1][0] else "u", t[1][1])

    def pure_expr(self, depth):
        """an expression without value-producing side effects (the directed families place hybrids inside void calls)"""
        h, self.c.hybrids = self.c.hybrids, 0.0
        try:
            return self.expr(depth)
        finally:
            self.c.hybrids = h

    def hybrid_expr(self, depth):
        r = self.r
        x = r.random()
        if x < 0.4:
            name, pts, rt = r.choice(CALLS)
            self.stats["call_" + name] += 1
            return ("call", name, [self.expr(depth - 1) for _ in pts], rt)
        if x < 0.7:
            op = r.choice(["++", "--"])
            self.stats["postfix" + op] += 1
            if self.locals and r.random() < 0.4:
                v = r.choice(sorted(self.locals))
                self.stats["postfix_on_local"] += 1
                return ("post", v, op, self.locals[v])
            v = r.choice(["i", "j", "k"])
            self.need.add(v)
            return ("post", v, op)
        if x < 0.8:
            # ({ set_usr_field(bundle, FIELD, a); val; }) - the saturation pattern
            self.stats["seq_expr"] += 1
            fld = r.choice(["HEX_REG_FIELD_USR_OVF", "HEX_REG_FIELD_USR_LPCFG"])
            return ("seqexpr", "set_usr_field", ["bundle", fld], [self.pure_expr(depth - 1)], self.pure_expr(depth - 1))
        self.stats["stmt_expr"] += 1
        if self.locals and r.random() < 0.5:
            n = r.choice(sorted(self.locals))
            self.stats["stmt_expr_existing_local"] += 1
            return ("stmtexpr", "", self.locals[n], n, self.expr(depth - 1), False)
        t = self.pick_type()
        n = self.fresh()
        return ("stmtexpr", self.tyname(t), t[1], n, self.expr(depth - 1), True)

    def stmt(self, nest=None):
        r = self.r
        if nest is None:
            nest = self.c.max_nest
        x = r.random()
        if nest > 0 and x < self.c.ifs:
            self.stats["if"] += 1
            c = self.cond(min(2, self.c.max_depth))
            then = self.block(nest - 1)
            els = None
            if r.random() < 0.5:
                self.stats["else"] += 1
                els = self.block(nest - 1)
            return ("if", c, then, els)
        x -= self.c.ifs
        if nest > 0 and x < self.c.loops:
            v = r.choice([v for v in ["i", "j", "k"] if v not in self.loop_vars] or ["i"])
            self.stats["for"] += 1
            self.loop_vars.append(v)
            body = self.block(nest - 1)
            self.loop_vars.pop()
            y0 = r.random()
            if y0 < 0.3:
                self.stats["for_data_dependent"] += 1
                bound = ("bin", "&", ("reg", r.choice(["RsV", "RtV"]), (True, 32)), self.small_lit([7]))
            elif y0 < 0.45 and self.locals:
                # the bound reads a local the body may assign (C evaluates the condition before every iteration)
                self.stats["for_bound_reads_local"] += 1
                n = r.choice(sorted(self.locals))
                bound = ("bin", "&", ("var", n, self.locals[n]), self.small_lit([7]))
            elif y0 < 0.55:
                # the bound reads the counter itself
                self.stats["for_bound_reads_counter"] += 1
                bound = ("bin", "-", ("bin", "&", ("reg", r.choice(["RsV", "RtV"]), (True, 32)), self.small_lit([15])), ("var", v, (False, 32)))
            else:
                bound = self.small_lit([0, 1, 2, 3, 4, 8])
            if r.random() < 0.25:
                self.stats["for_step_assign"] += 1
                return ("for", v, bound, body, None, r.choice([1, 2, 3]))
            y = r.random()
            if y < 0.15:
                self.stats["for_cond_and_cmp"] += 1
                return ("for", v, bound, body, ("andcmp", self.cond_strict(1)))
            if y < 0.25:
                self.stats["for_cond_int_and_int"] += 1
                return ("for", v, bound, body, ("intand", self.leaf(), self.leaf()))
            if y < 0.33:
                self.stats["for_cond_not"] += 1
                return ("for", v, bound, body, ("not",))
            return ("for", v, bound, body)
        x -= self.c.loops
        if x < self.c.mem:
            self.stats["store"] += 1
            self.need.add("EA")
            addr = None if r.random() < 0.5 else self.expr(1)
            return ("store", r.choice([8, 16, 32, 64]), addr, self.expr())
        x -= self.c.mem
        if x < self.c.jumps:
            self.stats["jump"] += 1
            return ("jump", self.expr(1))
        x -= self.c.jumps
        if x < 0.03:
            self.stats["misc"] += 1
            return ("raw", r.choice(["cancel_slot;", "STORE_SLOT_CANCELLED(pkt, slot);", ";", "{}"]))
        x -= 0.03
        if x < self.c.hybrids * 0.25:
            if r.random() < 0.3:
                self.stats["void_call_stmt"] += 1
                fld = r.choice(["HEX_REG_FIELD_USR_OVF", "HEX_REG_FIELD_USR_LPCFG"])
                return ("vcall", "set_usr_field", ["bundle", fld], [self.pure_expr(2)])
            self.stats["expr_stmt_hybrid"] += 1
            return ("exprstmt", self.hybrid_expr(2))
        y = r.random()
        if y < 0.35 or not self.locals:
            t = self.pick_type()
            n = self.fresh()
            e = self.expr()
            self.locals[n] = t[1]
            self.stats["decl_init"] += 1
            return ("decl", self.tyname(t), t[1], n, e)
        if y < 0.40:
            t = self.pick_type()
            n = self.fresh()
            e = self.expr()
            self.locals[n] = t[1]
            self.stats["decl_noinit"] += 1
            return ("block0", [("decl", self.tyname(t), t[1], n, None), ("assign", ("var", n, t[1]), "=", e)])
        if y < 0.70:
            n, t = r.choice(DEST_REGS + RW_REGS)
            if r.random() < self.c.explicit_regs * 2:
                n, t = r.choice(EXPLICIT_DESTS)
                self.stats["explicit_or_alias_write"] += 1
            self.stats["reg_write"] += 1
            op, e = "=", self.expr()
            if n in [x[0] for x in RW_REGS] and r.random() < self.c.compound_assign:
                op = r.choice(ASSIGN_OPS)
                self.stats["compound_assign_reg"] += 1
                if op in ("<<=", ">>="):
                    e = self.small_lit([0, 1, 4, 8, 31])
            return ("assign", ("reg", n, t), op, e)
        if len(self.locals) >= 1 and r.random() < self.c.chains:
            n2 = r.choice(sorted(self.locals))
            l2 = ("var", n2, self.locals[n2])
            if r.random() < 0.5:
                rn, rt = r.choice(DEST_REGS)
                l1 = ("reg", rn, rt)
            else:
                n1 = r.choice(sorted(self.locals))
                l1 = ("var", n1, self.locals[n1])
            if l1[1] != l2[1]:
                self.stats["chained_assign"] += 1
                return ("chain", l1, l2, r.choice(["=", "=", "+=", "-=", "|="]), self.expr(2))
        n = r.choice(sorted(self.locals))
        op, e = "=", self.expr()
        if r.random() < self.c.compound_assign:
            op = r.choice(ASSIGN_OPS)
            self.stats["compound_assign" + op] += 1
            if op in ("<<=", ">>="):
                e = self.small_lit([0, 1, 2, 4, 7])
        self.stats["assign_local"] += 1
        return ("assign", ("var", n, self.locals[n]), op, e)

    def block(self, nest):
        out = []
        saved = dict(self.locals)
        try:
            return self._block(nest, out)
        finally:
            self.locals = saved     # C block scope: inner declarations are not visible outside

    def _block(self, nest, out):
        for _ in range(self.r.randint(1, 3)):
            s = self.stmt(nest)
            if s[0] == "block0":
                out.extend(s[1])
            else:
                out.append(s)
        return out

    def program(self):
        """returns a list of statements (AST)"""
        self.reset()
        body = []
        for _ in range(self.r.randint(1, self.c.max_stmts)):
            s = self.stmt()
            if s[0] == "block0":
                body.extend(s[1])
            else:
                body.append(s)
        pre = []
        if "EA" in self.need:
            pre.append(("assign", ("var", "EA", (False, 32)), "=", self.r.choice([
                ("reg", "RsV", (True, 32)), ("bin", "+", ("reg", "RtV", (True, 32)), ("imm", "siV", (True, 32))),
                ("imm", "uiV", (False, 32))])))
        for v in ("i", "j", "k"):
            if v in self.need:
                pre.append(("assign", ("var", v, (False, 32)), "=", self.r.choice([
                    ("lit", "0", 0, (True, 32)), ("lit", "1", 1, (True, 32)), ("imm", "uiV", (False, 32))])))
        return pre + body

    def clean_program(self, forbidden: set, tries=200):
        """A program whose feature set avoids `forbidden` (rejection sampling)."""
        for _ in range(tries):
            p = self.program()
            if not (features(p) & forbidden):
                return p
        return [("assign", ("reg", "RdV", (True, 32)), "=", ("reg", "RsV", (True, 32)))]


def invalid_stream(rng: random.Random, n: int) -> list[str]:
    """Malformed and unsupported programs (parse errors, unsupported constructs, type errors)."""
    pool = [
        "{ RdV = ; }", "{ RdV = RsV + ; }", "{", "{ RdV = RsV }", "{ RdV = (RsV; }", "{ while (RsV) { RdV = 1; } }",
        "{ do { RdV = 1; } while (RsV); }", "{ switch (RsV) { case 1: RdV = 1; } }", "{ RdV = foo(RsV); }",
        "{ RdV = RsV->x; }", "{ RdV = RsV[1]; }", "{ RdV = *RsV; }", "{ float f = 1; RdV = 1; }", "{ long x = 1; RdV = x; }",
        "{ RdV = mem_load_s16(EA) + 1; }", "{ RdV = sizeof RsV; }", "{ int a = 1, b = 2; RdV = a; }", "{ RdV = ++RsV; }",
        "{ RdV = RsV.x; }", "{ return; }", "{ RdV = 7 / 2; }", "{ const int c = 1; c = 2; }", "{ RdV = RsV @ 1; }",
        "{ RdV = unknown_var + 1; }", "{ RdV = RsV ? ; }", "{ if RsV { RdV = 1; } }", "{ for (;;) { RdV = 1; } }",
        "{ RdV = (struct s)RsV; }", "{ XdV = 1; }", "{ RdV = 1 % 3; }",
    ]
    return [rng.choice(pool) for _ in range(n)]
