from semprops import run_prop


def run(tier, replay=None):
    return run_prop("C06", tier, replay)
