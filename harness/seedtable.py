#!/usr/bin/env python3
"""Markdown table of the seeded changes and how the checks fared (from seeded/*/meta.json and seeded/RESULTS.json)."""
import json, os, re, sys
V = os.path.dirname(os.path.dirname(os.path.abspath(__file__)))
res = json.load(open(f"{V}/seeded/RESULTS.json"))
only = sys.argv[1] if len(sys.argv) > 1 else None
print("| seed | change | check | VIOLATION lines | first finding |")
print("|---|---|---|---|---|")
for sid in sorted(d for d in os.listdir(f"{V}/seeded") if os.path.isdir(f"{V}/seeded/{d}")):
    if only and not re.search(only, sid):
        continue
    m = json.load(open(f"{V}/seeded/{sid}/meta.json"))
    title = re.sub(r"^#\s*", "", m["needs_to_manifest"]).split(" - Change")[0].split(" - What")[0].split(" - File")[0].split(" ## ")[0].split(" - **")[0].split(" * ")[0][:110]
    r = res.get(sid, {})
    det = r.get("detected")
    vl = f"{r.get('violation_lines', '?')} ({r.get('with_failing_input', '?')} with a failing input)" if det else ("NOT DETECTED" if det is False else str(r.get("error", "?"))[:40])
    ff = (r.get("first_finding") or "").replace("|", "/").replace("\n", " ")[:110]
    print(f"| {sid} | {title} | `./check {sid.split('-')[0]}` | {vl} | {ff} |")
