"""C17 — the grammar parses behaviours with C structure, deterministically.

Theorems: lean/RzilVerif/Props/C17.lean (refParse_print for ALL expression trees: the reference
precedence parser inverts the minimal-parenthesis printer; precedence/associativity lemmas),
Props/C17Stmt.lean (refParseStmt_print for ALL statement trees — blocks, if/else, for, declarations,
statement-expressions, mutually recursive with the expressions; else_binds_nearest / else_not_outer /
else_through_for / braces_bind_outer / parse_print_open_then: the else binding stated outright) and
Props/C17Shape.lean (kernel-decided facts about the REGENERATED grammar: tower levels/order/recursion
side/operators, terminal spellings and priorities, the two `if` alternatives).
Tie: translator (Gen/GrammarGen.lean through Lark's own loader) + correspondence with Lark: random token
strings over the dialect (random parenthesisation and spacing) parsed by the real parser and by the Lean
reference parser; token classification of operand atoms; random statement nests (blocks, if/else chains incl.
dangling shapes, for loops, declarations, statement-expressions inside expressions, empty statements) parsed
by both and compared after the tree-shape normalisations N1..N4 listed at `lark_stmt_to_sx`; and the same texts parsed in fresh
processes under several PYTHONHASHSEED values through both parser construction sites.
Partial: determinism across hash seeds is runtime behaviour of a third-party library; it is sampled.
"""
from __future__ import annotations

import hashlib
import random
import subprocess

from common import *  # noqa
import realcode as rc
import translate

PROP = "C17"
TB = [
    "Lean 4.33 kernel; axioms propext, Classical.choice, Quot.sound (audited per theorem)",
    "translator gen_grammar (Lark's own grammar loader -> Gen/GrammarGen.lean); reference parser/printer Model/Grammar.lean",
    "harness: expression generator, Lark tree -> expression tree conversion, child processes with PYTHONHASHSEED",
    "lark (third party) is the implementation under test for ambiguity resolution; observed by behaviour, sampled over hash seeds",
]
BIN = ["||", "&&", "|", "^", "&", "==", "!=", "<", ">", "<=", ">=", "<<", ">>", "+", "-", "*"]
ATOMS = [("RsV", "reg"), ("RtV", "reg"), ("RddV", "reg"), ("PuV", "reg"), ("NsN", "new_reg"), ("PtN", "new_reg"), ("siV", "imm"), ("UiV", "imm"),
         ("0x10", "number"), ("7", "number"), ("1ULL", "number"), ("a", "identifier"), ("b", "identifier"), ("tmp", "identifier"), ("EA", "identifier"),
         ("mask_t", "identifier"), ("idx_t", "identifier"), ("int_x", "identifier"),
         ("P0", "explicit_reg"), ("R31", "explicit_reg"), ("P1_NEW", "explicit_reg"), ("HEX_REG_ALIAS_SP", "reg_alias"), ("HEX_REG_ALIAS_LR_NEW", "reg_alias")]
# every architectural alias name (patches_macros.h, the corpus, the three 64-bit pairs), plain and .new: all of them are `reg_alias`
ALIAS_NAMES = ["PC", "SP", "LR", "FP", "GP", "UGP", "USR", "LC0", "LC1", "SA0", "SA1", "M0", "M1", "CS0", "CS1", "FRAMEKEY", "FRAMELIMIT",
               "UPCYCLE", "UPCYCLELO", "UPCYCLEHI", "PKTCOUNT", "PKTCNTLO", "PKTCNTHI", "UTIMER", "UTIMERLO", "UTIMERHI"]
ALIAS_ATOMS = [("HEX_REG_ALIAS_" + n_ + sfx_, "reg_alias") for n_ in ALIAS_NAMES for sfx_ in ("", "_NEW")]
EXPLICIT_ATOMS = [("R0", "explicit_reg"), ("R13", "explicit_reg"), ("R1:0", "explicit_reg"), ("P3", "explicit_reg"), ("P3_NEW", "explicit_reg"), ("C2", "explicit_reg"),
                  ("C3:2", "explicit_reg"), ("M0", "explicit_reg"), ("R31_NEW", "explicit_reg")]
# register numbers with a digit 4..9 (the terminal once used the character class [0-31], i.e. the digits 0..3: repaired in /repo)
EXPLICIT_HIGH = ["R15", "R4", "R29", "C6", "C9:8", "P3:0", "R7_NEW", "R28", "R30", "R31", "C31:30", "R11:10_NEW"]
TYPES = ["int32_t", "uint8_t", "size4u_t", "int", "unsigned"]
AMBIG = ["{ a = 1; { b = 1; } ; }", "{ a = b---c; }", "{ if (a) if (b) RdV = 1; else RdV = 2; }", "{ RdV = RsV&&RtV; }", "{ RdV = a & b && c; }",
         "{ RdV = (a)-b; }", "{ RdV = (int)-b; }", "{ RdV = a ? b : c ? d : e; }", "{ RdV = ({ int x = 1; x; }) + 1; }", "{ {} ; {} }"]


def gen_tree(rng, depth, sdepth=0):
    """random expression; with sdepth > 0 (statement-level cases only: the draws of the expression-level cases are
    unchanged) an operand may be a statement-expression `({ items e; })` whose items nest up to sdepth"""
    if sdepth > 0 and rng.random() < 0.08:
        return ("stmtexpr", [gen_stmt(rng, sdepth - 1, True) for _ in range(rng.randint(0, 2))], gen_tree(rng, min(depth, 1), sdepth - 1))
    if depth <= 0 or rng.random() < 0.2:
        return ("atom",) + rng.choice(ATOMS)
    k = rng.random()
    if k < 0.6:
        return ("bin", rng.choice(BIN), gen_tree(rng, depth - 1, sdepth), gen_tree(rng, depth - 1, sdepth))
    if k < 0.7:
        return ("un", rng.choice(["-", "~", "!"]), gen_tree(rng, depth - 1, sdepth))
    if k < 0.78:
        return ("cast", rng.choice(TYPES), gen_tree(rng, depth - 1, sdepth))
    if k < 0.88:
        return ("tern", gen_tree(rng, depth - 1, sdepth), gen_tree(rng, depth - 1, sdepth), gen_tree(rng, depth - 1, sdepth))
    if k < 0.94:
        return ("post", rng.choice(["++", "--"]), ("atom", "a", "identifier"))
    return ("paren", gen_tree(rng, depth - 1, sdepth))


ASSIGN = ["=", "=", "=", "+=", "-=", "<<=", "|=", "^="]       # no "&=": glued to its left operand it falls into the listed unary-& class
LHS = ["RdV", "RxV", "RddV", "PdV", "a", "b", "tmp", "EA"]
DNAMES = ["x", "y", "k", "tmp2", "w_"]


def gen_sexpr(rng, sdepth, edepth=2):
    """expression of a statement-level case: assignment, plain expression tree, or (rarely, directly) a statement-expression"""
    k = rng.random()
    if k < 0.45:
        return ("assign", rng.choice(ASSIGN), ("atom", rng.choice(LHS)), gen_tree(rng, rng.randint(0, edepth), sdepth))
    return gen_tree(rng, rng.randint(0, edepth), sdepth)


def gen_stmt(rng, depth, in_block=False):
    """random statement nest.  NO protective braces are inserted: `("if", c, ("if", c2, s, None), t)` is emitted as
    `if (c) if (c2) s else t` — the dangling shapes occur on purpose, the reference parser decides the structure."""
    k = rng.random()
    if depth <= 0:
        if in_block and k < 0.12:
            return ("decl", rng.choice(TYPES), rng.choice(DNAMES), gen_sexpr(rng, 0, 1) if rng.random() < 0.6 else None)
        if k < 0.19:                       # (an `if` whose body is the empty statement is the keyword-confusion shape: kept, but not frequent)
            return ("empty",)
        if k < 0.25:
            return ("block", [])
        if k < 0.30:
            return ("jump", gen_tree(rng, 1))
        return ("expr", gen_sexpr(rng, 0))
    if k < 0.24:
        return ("block", [gen_stmt(rng, depth - 1, True) for _ in range(rng.randint(0, 3))])
    if k < 0.42:
        return ("if", gen_sexpr(rng, depth - 1, 1), gen_stmt(rng, depth - 1), None)
    if k < 0.62:
        return ("if", gen_sexpr(rng, depth - 1, 1), gen_stmt(rng, depth - 1), gen_stmt(rng, depth - 1))
    if k < 0.72:
        return ("for", gen_sexpr(rng, 0, 1), gen_sexpr(rng, 0, 1), gen_sexpr(rng, 0, 1), gen_stmt(rng, depth - 1))
    if k < 0.80 and in_block:
        return ("decl", rng.choice(TYPES), rng.choice(DNAMES), gen_sexpr(rng, depth - 1, 1) if rng.random() < 0.6 else None)
    if k < 0.83:
        return ("empty",)
    return ("expr", gen_sexpr(rng, depth - 1))


def stoks(t, rng, out):
    """token list of a statement nest (braces exactly where the generated nest has a block)"""
    k = t[0]
    if k == "expr":
        toks(t[1], rng, out); out.append(("op", ";"))
    elif k == "jump":
        out.append(("atom", "JUMP")); out.append("lp"); toks(t[1], rng, out); out.append("rp"); out.append(("op", ";"))
    elif k == "empty":
        out.append(("op", ";"))
    elif k == "block":
        out.append(("op", "{"))
        for it in t[1]:
            stoks(it, rng, out)
        out.append(("op", "}"))
    elif k == "if":
        out.append(("op", "if")); out.append("lp"); toks(t[1], rng, out); out.append("rp"); stoks(t[2], rng, out)
        if t[3] is not None:
            out.append(("op", "else")); stoks(t[3], rng, out)
    elif k == "for":
        out.append(("op", "for")); out.append("lp"); toks(t[1], rng, out); out.append(("op", ";")); toks(t[2], rng, out)
        out.append(("op", ";")); toks(t[3], rng, out); out.append("rp"); stoks(t[4], rng, out)
    elif k == "decl":
        out.append(("ty", t[1])); out.append(("atom", t[2]))
        if t[3] is not None:
            out.append(("op", "=")); toks(t[3], rng, out)
        out.append(("op", ";"))


def toks(t, rng, out):
    """token list with random extra parentheses (every sub-expression is parenthesised or not at random when
    that is syntactically unambiguous for a HUMAN reader of C: we emit fully explicit parentheses with
    probability 1/2, otherwise none — the reference parser then decides the structure)."""
    k = t[0]
    if k == "atom":
        out.append(("atom", t[1]))
    elif k == "paren":
        out.append("lp"); toks(t[1], rng, out); out.append("rp")
    elif k == "bin":
        for side, sub in (("l", t[2]), ("r", t[3])):
            if side == "r":
                out.append(("op", t[1]))
            if rng.random() < 0.4 and sub[0] != "atom":
                out.append("lp"); toks(sub, rng, out); out.append("rp")
            else:
                toks(sub, rng, out)
    elif k == "un":
        out.append(("op", t[1]))
        if rng.random() < 0.5 and t[2][0] != "atom":
            out.append("lp"); toks(t[2], rng, out); out.append("rp")
        else:
            toks(t[2], rng, out)
    elif k == "cast":
        out.append("lp"); out.append(("ty", t[1])); out.append("rp")
        if rng.random() < 0.5 and t[2][0] != "atom":
            out.append("lp"); toks(t[2], rng, out); out.append("rp")
        else:
            toks(t[2], rng, out)
    elif k == "tern":
        toks(t[1], rng, out); out.append(("op", "?")); toks(t[2], rng, out); out.append(("op", ":")); toks(t[3], rng, out)
    elif k == "post":
        toks(t[2], rng, out); out.append(("op", t[1]))
    elif k == "assign":
        toks(t[2], rng, out); out.append(("op", t[1])); toks(t[3], rng, out)
    elif k == "stmtexpr":
        out.append("lp"); out.append(("op", "{"))
        for it in t[1]:
            stoks(it, rng, out)
        toks(t[2], rng, out); out.append(("op", ";")); out.append(("op", "}")); out.append("rp")


def text_of(tl, rng):
    s = ""
    prev = None
    for t in tl:
        w = "(" if t == "lp" else ")" if t == "rp" else t[1]
        # spacing: random, but never glue two operator tokens that would lex as another operator
        glue = rng.random() < 0.35
        if prev is not None:
            a = "(" if prev == "lp" else ")" if prev == "rp" else prev[1]
            if not glue or (a[-1] in "+-&|<>=!*~?:" and w[0] in "+-&|<>=!*~") or (a[-1].isalnum() and w[0].isalnum()) or a[-1] == "_" or w[0] == "_" \
                    or a == ":" or w == ":":     # `R31:1` glued would be the spelling of an explicit register pair
                s += " "
        s += w
        prev = t
    return s


def lark_to_sx(t, classes):
    """Lark tree of an expression -> the reference parser's tree shape (S-expression as nested lists)."""
    from lark import Tree, Token

    if isinstance(t, Token):
        return ["atom", Q(str(t))]
    d = t.data
    ch = t.children
    leaf = {"reg": lambda c: "".join(str(x) for x in c) + "V", "new_reg": lambda c: "".join(str(x) for x in c) + "N",
            "imm": lambda c: str(c[0]) + "iV", "identifier": lambda c: str(c[0]),
            "explicit_reg": lambda c: str(c[0]) + ("_NEW" if c[1] is not None else ""),
            "reg_alias": lambda c: "HEX_REG_ALIAS_" + str(c[0]) + ("_NEW" if c[1] is not None else "")}
    if d in leaf:
        txt = leaf[d](ch)
        classes.append((txt, str(d)))
        return ["atom", Q(txt)]
    if d == "number":
        txt = str(ch[0]) + (str(ch[1]) if len(ch) > 1 and ch[1] is not None else "")
        classes.append((txt, "number"))
        return ["atom", Q(txt)]
    if d in ("multiplicative_expr", "additive_expr", "shift_expr", "relational_expr", "equality_expr", "and_expr", "exclusive_or_expr",
             "inclusive_or_expr", "logical_and_expr", "logical_or_expr"):
        return ["bin", Q(str(ch[1])), lark_to_sx(ch[0], classes), lark_to_sx(ch[2], classes)]
    if d == "unary_expr":
        return ["un", Q(str(ch[0])), lark_to_sx(ch[1], classes)]
    if d == "cast_expr":
        return ["cast", Q(type_text(ch[0])), lark_to_sx(ch[1], classes)]
    if d == "conditional_expr":
        return ["tern", lark_to_sx(ch[0], classes), lark_to_sx(ch[1], classes), lark_to_sx(ch[2], classes)]
    if d == "assignment_expr":
        return ["assign", Q(str(ch[1])), lark_to_sx(ch[0], classes), lark_to_sx(ch[2], classes)]
    if d == "postfix_expr":
        return ["post", Q(str(ch[1])), lark_to_sx(ch[0], classes)]
    if d == "sub_routine":
        return ["call", Q(str(ch[0].children[0]))] + [lark_to_sx(c, classes) for c in ch[1:] if c is not None]
    if d == "gcc_extended_expr":
        # "(" "{" [block_item_list] expr ";" "}" ")" : children [items or None, value]; the parentheses leave no node
        return ["stmtexpr", lark_items(ch[0], classes), lark_to_sx(ch[1], classes)]
    return ["other", Q(str(d))]


def lark_items(t, classes):
    """item list of a non-empty compound / statement-expression body.
    N1 (tree-shape encoding): `?block_item_list` is left recursive and inlined when it has one child, so n items are
    block_item_list(block_item_list(… block_item(i1) …, block_item(i2)) …, block_item(in)) and one item is just block_item(i1)."""
    from lark import Tree

    if t is None:
        return []
    if isinstance(t, Tree) and t.data == "block_item_list":
        out = []
        for c in t.children:
            out += lark_items(c, classes)
        return out
    if isinstance(t, Tree) and t.data == "block_item" and len(t.children) == 1:
        c = t.children[0]
        if isinstance(c, Tree) and c.data == "declaration":
            ty = Q(type_text(c.children[0]))
            dn = c.children[1]
            if isinstance(dn, Tree) and dn.data == "init_declarator":
                return [["declinit", ty, Q(str(dn.children[0])), lark_to_sx(dn.children[1], classes)]]
            return [["decl", ty, Q(str(dn))]]
        return [lark_stmt_to_sx(c, classes)]
    raise ValueError(f"unexpected item node {getattr(t, 'data', t)!r}")


def lark_stmt_to_sx(t, classes):
    """Lark tree in STATEMENT position -> the reference parser's statement tree.  Normalisations (each one is pure
    tree-shape encoding: the node kinds below are what Lark's `?rule` inlining leaves of the derivation):
    N1  nested/inlined block_item_list (see lark_items);
    N2  a compound statement has no node of its own: in statement position `block_item(x)` IS `{ x }`, `block_item_list(…)` IS
        `{ … }`, and the childless `compound_stmt` IS `{ }`; hence `{ { x; } }` = block_item(block_item(x)) = (block (block x));
    N3  `?expr_stmt`: `e ;` is just the tree of e, the empty statement `;` is the childless node `expr_stmt`;
    N4  (applied later, `join_jump`) JUMP(e) is a complete jump_stmt WITHOUT its semicolon, which then shows up as an empty
        statement item right behind the statement that ends in the jump: `JUMP(e) ;` == expression statement `JUMP(e);`.
    NOT normalised (counted, see `drop_semi`): the optional ";" of `"{" block_item_list "}" [";"]`."""
    from lark import Tree, Token

    if isinstance(t, Tree):
        d, ch = t.data, t.children
        if d in ("block_item", "block_item_list"):
            return ["block"] + lark_items(t, classes)
        if d == "compound_stmt" and not ch:
            return ["block"]
        if d == "expr_stmt" and not ch:
            return ["empty"]
        if d == "selection_stmt" and str(ch[0]) == "if":
            if len(ch) == 3:
                return ["if", lark_to_sx(ch[1], classes), lark_stmt_to_sx(ch[2], classes)]
            if len(ch) == 5 and str(ch[3]) == "else":
                return ["ifelse", lark_to_sx(ch[1], classes), lark_stmt_to_sx(ch[2], classes), lark_stmt_to_sx(ch[4], classes)]
        if d == "iteration_stmt" and str(ch[0]) == "for" and len(ch) == 5:
            return ["for", lark_to_sx(ch[1], classes), lark_to_sx(ch[2], classes), lark_to_sx(ch[3], classes), lark_stmt_to_sx(ch[4], classes)]
        if d == "jump_stmt" and len(ch) == 1 and isinstance(ch[0], Tree) and ch[0].data == "jump" and len(ch[0].children) == 2:
            return ["jump", lark_to_sx(ch[0].children[1], classes)]
        if d in ("selection_stmt", "iteration_stmt", "jump_stmt", "declaration", "labeled_stmt", "mem_store", "cancel_slot_stmt"):
            raise ValueError(f"unexpected statement node {d} with {len(ch)} children")
    return ["expr", lark_to_sx(t, classes)]


STMT_TAGS = ("block", "if", "ifelse", "for", "expr", "empty", "decl", "declinit", "jump", "stmtexpr")


def _T(txt):
    """tokens of a directed statement text written with single spaces between tokens"""
    out = []
    for w in txt.split():
        out.append("lp" if w == "(" else "rp" if w == ")" else ("ty", w) if w in TYPES else
                   ("atom", w) if (w[0].isalnum() or w[0] == "_") and w not in ("if", "else", "for") else ("op", w))
    return out


STMT_DIRECTED = [_T(x) for x in [
    "{ if ( a ) if ( b ) RdV = 1 ; else RdV = 2 ; }",                       # dangling else (known finding)
    "{ if ( a ) { if ( b ) RdV = 1 ; } else RdV = 2 ; }",
    "{ if ( a ) { if ( b ) RdV = 1 ; else RdV = 2 ; } }",
    "{ if ( a ) if ( b ) RdV = 1 ; else RdV = 2 ; else RdV = 3 ; }",          # two ifs, two elses: not ambiguous
    "{ if ( a ) RdV = 1 ; else if ( b ) RdV = 2 ; else RdV = 3 ; }",          # else-if chain: not ambiguous
    "{ if ( a ) for ( a = 0 ; a < 4 ; a ++ ) if ( b ) RdV = 1 ; else RdV = 2 ; }",   # dangling through a loop body
    "{ if ( a ) RdV = 1 ; else if ( b ) if ( tmp ) RdV = 2 ; else RdV = 3 ; }",
    "{ { RdV = 1 ; } }", "{ { { RdV = 1 ; } } }", "{ { } }", "{ { } { } }", "{ ; }", "{ ; ; }", "{ { ; } ; }",
    "{ { RdV = 1 ; } ; }", "{ { RdV = 1 ; } ; ; }", "{ { } ; }", "{ if ( a ) { RdV = 1 ; } ; RdV = 2 ; }",
    "{ if ( a ) { RdV = 1 ; } ; else RdV = 2 ; }",                           # not C: Lark accepts (optional ';' of the compound)
    "{ for ( a = 0 ; a < 4 ; a ++ ) { RdV += a ; } }", "{ for ( a = 0 ; a < 4 ; a ++ ) ; }",
    "{ int x ; int32_t y = 1 ; RdV = x + y ; }", "{ unsigned k = ( uint8_t ) RsV ; }",
    "{ RdV = ( { int x = 1 ; x ; } ) + 1 ; }", "{ RdV = ( { a ; } ) ; }", "{ RdV = ( { { a ; } ; b ; } ) ; }",
    "{ if ( ( { a ; } ) ) RdV = ( { if ( a ) b = 1 ; else b = 2 ; b ; } ) ; }",
    "{ if ( a ) ; }", "{ if ( a ) ; else ; }", "{ if ( a ) - b ; }", "{ for ( a ; b ; tmp ) - b ; }",   # reserved words taken as identifiers
    # a statement that ends in a compound statement, followed by an expression statement starting with an operator that is unary
    # and binary: two statements, the block is not an operand
    "{ if ( a ) { RdV = 1 ; b = 2 ; } - b ; }", "{ if ( a ) { RdV = 1 ; } else { b = 2 ; } - b ; }", "{ for ( a = 0 ; a < 4 ; a ++ ) { RdV += a ; } + b ; }",
    "{ { RdV = 1 ; } - b ; }", "{ a = 0 ; if ( a ) { RdV = 1 ; } - b * 2 ; }", "{ a = 0 ; { RdV = 1 ; } + b ; tmp = 1 ; }",
    "{ if ( a ) { RdV = 1 ; } ~ b ; }", "{ if ( a ) { RdV = 1 ; } ! b ; }",
    # declarations whose declarator is named like a type
    "{ int32_t mask_t ; mask_t = 1 ; }", "{ int idx_t = 2 ; RdV = ( idx_t ) - 1 ; }", "{ uint8_t int_x ; int_x = ( mask_t ) + 1 ; }",
    "{ JUMP ( a ) ; }", "{ if ( a ) JUMP ( b ) ; }", "{ if ( a ) JUMP ( b ) ; else RdV = 1 ; }", "{ if ( a ) { JUMP ( b ) ; } RdV = 1 ; }",
]]


def semi_accepts_non_c(tl):
    """the token string has `} ; else`: in C the `;` ends the if statement and the else is an error; the real grammar takes
    the `;` as part of the compound statement"""
    return any(tl[i] == ("op", "}") and tl[i + 1] == ("op", ";") and tl[i + 2] == ("op", "else") for i in range(len(tl) - 2))


KEYWORDS = ("if", "else", "for")


def has_keyword_ident(x):
    """Lark's tree uses a reserved word as an identifier: (call "if" …) / (atom "else") — no C tree has such a node"""
    if not isinstance(x, list):
        return False
    if len(x) >= 2 and x[0] in ("call", "atom") and x[1] in KEYWORDS:
        return True
    return any(has_keyword_ident(y) for y in x)


def if_call(x):
    """what the keyword confusion does to the simplest shape: (if c (empty)) -> (expr (call "if" c)).  Applied to the REFERENCE
    tree only to sub-classify counted cases."""
    if not isinstance(x, list):
        return x
    x = [if_call(y) for y in x]
    if len(x) == 3 and x[0] == "if" and x[2] == ["empty"]:
        return ["expr", ["call", "if", x[1]]]
    return x


def spine_end(t):
    """last statement on the right spine (if body / else branch / for body): what an immediately following token touches"""
    while isinstance(t, list) and t and t[0] in ("if", "ifelse", "for"):
        t = t[-1]
    return t


def map_items(x, f):
    """apply f to every item list (block bodies, statement-expression bodies), bottom up"""
    if not isinstance(x, list):
        return x
    x = [map_items(y, f) for y in x]
    if x and x[0] == "block":
        return ["block"] + f(x[1:])
    if x and x[0] == "stmtexpr" and len(x) == 3 and isinstance(x[1], list):
        return ["stmtexpr", f(x[1]), x[2]]
    return x


def _set_spine_end(t, new):
    if isinstance(t, list) and t and t[0] in ("if", "ifelse", "for"):
        return t[:-1] + [_set_spine_end(t[-1], new)]
    return new


def join_jump(x):
    """N4: item ending in (jump e) followed by an (empty) item  ->  the item ending in (expr (call "JUMP" e))."""

    def f(items):
        out, i = [], 0
        while i < len(items):
            it = items[i]
            e = spine_end(it)
            if isinstance(e, list) and e and e[0] == "jump" and i + 1 < len(items) and items[i + 1] == ["empty"]:
                out.append(_set_spine_end(it, ["expr", ["call", "JUMP", e[1]]]))
                i += 2
            else:
                out.append(it)
                i += 1
        return out

    return map_items(x, f)


def drop_semi(x):
    """what the real grammar's `"{" block_item_list "}" [";"]` does to a C tree: ONE empty statement directly behind an item
    that ends in a non-empty block is not a statement of its own (it is swallowed by that block).  Applied to the REFERENCE
    tree to attribute a difference to this class; never applied silently: such cases are counted."""

    def f(items):
        out, i = [], 0
        while i < len(items):
            it = items[i]
            out.append(it)
            e = spine_end(it)
            if isinstance(e, list) and len(e) > 1 and e[0] == "block" and i + 1 < len(items) and items[i + 1] == ["empty"]:
                i += 1
            i += 1
        return out

    return map_items(x, f)


def dangling(x):
    """the reference (C) tree has an else-less `if` whose body's right spine reaches an `if … else`: the text is the known
    ambiguous shape (that else could syntactically be given to the outer if).  Returns 0 = no, 1 = directly nested ifs,
    2 = only through a for body."""
    if not isinstance(x, list):
        return 0
    best = 0
    if x and x[0] == "if":
        t, via_for = x[2], False
        while isinstance(t, list) and t and t[0] in ("if", "for", "ifelse"):
            if t[0] == "ifelse":
                best = 2 if via_for else 1
                break
            via_for = via_for or t[0] == "for"
            t = t[-1]
    for y in x:
        d = dangling(y)
        if d and (best == 0 or d < best):
            best = d
    return best


def skel(x, out=None):
    """rendering that forgets ONLY which if an else belongs to: blocks keep their braces, every other node is bracketed,
    if/else are emitted as bare words.  skel(a) == skel(b)  <=>  a and b differ at most in else attachment."""
    out = [] if out is None else out
    if not isinstance(x, list):
        out.append(str(x))
    elif x and x[0] == "if":
        out.append("if"); skel(x[1], out); skel(x[2], out)
    elif x and x[0] == "ifelse":
        out.append("if"); skel(x[1], out); skel(x[2], out); out.append("else"); skel(x[3], out)
    elif x and x[0] == "for":
        out.append("for"); skel(x[1], out); skel(x[2], out); skel(x[3], out); skel(x[4], out)
    else:
        out.append("[")
        for y in x:
            skel(y, out)
        out.append("]")
    return out


def type_text(t):
    from lark import Tree

    if isinstance(t, Tree):
        parts = []
        for c in t.iter_subtrees_topdown():
            pass
        toks_ = [str(x) for x in t.scan_values(lambda v: True)]
        if t.data == "type_specifier" and t.children and isinstance(t.children[0], Tree):
            inner = t.children[0]
            if inner.data == "c_int_type":
                return f"{inner.children[0]}{inner.children[1]}_t"
            if inner.data == "c_size_type":
                return f"size{inner.children[0]}{inner.children[1]}_t"
        return "".join(toks_)
    return str(t)


def has_amp_unary(x):
    # the listed class: the "operator" token swallowed a neighbouring character (its text is more than a bare &)
    return isinstance(x, list) and ((len(x) > 1 and x[0] == "un" and "&" in str(x[1]) and str(x[1]).strip() != "&") or any(has_amp_unary(y) for y in x))


def sx_norm(x):
    if isinstance(x, Q):
        return x.s if "&" in x.s else x.s.strip()
    if isinstance(x, list):
        return [sx_norm(y) for y in x]
    return x


# texts that differ only in layout a lossy normalisation could erase (spacing next to operators, redundant parentheses,
# letter case of a suffix): parsed as the two parts of ONE instruction (same worker process), in both orders
CONFUSABLE = [("{ RdV = i++ + j; }", "{ RdV = i + ++j; }"), ("{ RdV = a-- - b; }", "{ RdV = a - --b; }"), ("{ RdV = a & &b; }", "{ RdV = a && b; }"),
              ("{ RdV = a - -b; }", "{ RdV = a-- b; }"), ("{ RdV = (a) - b; }", "{ RdV = (a)-b; }"), ("{ RdV = a * (b + c); }", "{ RdV = a * b + c; }"),
              ("{ RdV = 1U; }", "{ RdV = 1u; }"), ("{ if (a) RdV = 1; else RdV = 2; }", "{ if (a) { RdV = 1; } else { RdV = 2; } }"),
              ("{ RdV = a < b; }", "{ RdV = a << b; }"), ("{ RdV = RsV; }", "{ RdV = Rsv; }"), ("{ RdV = (int8_t) a; }", "{ RdV = (int8_t)a; }")]


CHILD = r"""
import sys, hashlib, json
sys.path.insert(0, %(repo)r)
import os; os.chdir(%(repo)r)
import io
so = sys.stdout; sys.stdout = io.StringIO()
from rzilcompiler.Compiler import Compiler
from rzilcompiler.Parser import Parser
import types
texts = json.loads(%(texts)r)
d = types.SimpleNamespace(); Compiler.set_lark_parser(d)
out = {}
for t in texts:
    try:
        a = hashlib.sha1(str(d.parser.parse(t)).encode()).hexdigest()[:12]
    except Exception as e:
        a = "exc:" + type(e).__name__
    out[t] = [a]
res = Parser.parse({"T%%d" %% i: [t] for i, t in enumerate(texts)})
for i, t in enumerate(texts):
    pi = res["T%%d" %% i]
    out[t].append(hashlib.sha1(str(pi.asts[0]).encode()).hexdigest()[:12] if pi.asts else "exc:" + pi.exception.name)
pairs = json.loads(%(pairs)r)
flip = int(os.environ.get("PYTHONHASHSEED", "0")) %% 2
for k, pr in enumerate(pairs):
    parts = list(pr)[::-1] if flip else list(pr)
    pi = Parser.parse({"PAIR%%d" %% k: parts})["PAIR%%d" %% k]
    for j, t in enumerate(parts):
        out.setdefault(t, []).append(hashlib.sha1(str(pi.asts[j]).encode()).hexdigest()[:12] if len(pi.asts) == len(parts) else "exc:" + (pi.exception.name if pi.exception else "trees"))
# all texts as the parts of ONE instruction (dozens of parts), and of one with 11 parts: part j's tree is text j's tree
good = [t for t in texts if not out[t][0].startswith("exc:")]
for nm, parts in (("MANY", good), ("ELEVEN", good[:11][::-1])):
    pi = Parser.parse({nm: list(parts)})[nm]
    for j, t in enumerate(parts):
        out[t].append(hashlib.sha1(str(pi.asts[j]).encode()).hexdigest()[:12] if len(pi.asts) == len(parts) else "exc:" + (pi.exception.name if pi.exception else "trees"))
sys.stdout = so
print(json.dumps(out))
"""


def run(tier: str, replay=None) -> int:
    res = Result(PROP, tier)
    st = prepare(PROP, translate=translate.run_all, extra_modules=["RzilVerif.Props.C17Stmt", "RzilVerif.Props.C17Shape"])
    res.proof = st
    use_repo()
    rng = random.Random(seed() * 2027 + 17)
    n = 250 if tier == "quick" else 4000
    cases = []
    # exhaustive: all ordered operator pairs, both association orders, without parentheses
    for o1 in BIN:
        for o2 in BIN:
            cases.append([("atom", "a"), ("op", o1), ("atom", "b"), ("op", o2), ("atom", "c")])
    # a postfix ++/-- in front of every binary operator (several of them are unary operators as well: maximal munch)
    for pf in ("++", "--"):
        for o in BIN:
            cases.append([("atom", "a"), ("op", pf), ("op", o), ("atom", "b")])
            cases.append([("atom", "c"), ("op", o), ("atom", "a"), ("op", pf), ("op", o), ("atom", "b")])
    # a cast between two operators that are unary operators as well: `a - (int32_t) - b` is a - ((int32_t)(-b)), the type
    # name is not an identifier in parentheses
    for ty in TYPES:
        for o in ("+", "-", "*", "&", "|", "<<", "==", "&&"):
            for o2 in ("-", "~", "!"):
                cases.append([("atom", "a"), ("op", o), "lp", ("ty", ty), "rp", ("op", o2), ("atom", "b")])
    # a local whose name ends in `_t` is an identifier, not a type: `(mask_t) - b` is a subtraction
    for nm in ("mask_t", "idx_t", "int_x"):
        for o in ("-", "+", "*", "&", "<<"):
            cases.append(["lp", ("atom", nm), "rp", ("op", o), ("atom", "b")])
            cases.append([("atom", "a"), ("op", "*"), "lp", ("atom", nm), "rp", ("op", o), ("atom", "b")])
    # token classification of every alias name and of more explicit-register spellings, as left and as right operand
    # (an explicit pair is not put at the start of a statement: `R1:0 + b;` is a labelled statement in C)
    for nm, _cls in ALIAS_ATOMS + EXPLICIT_ATOMS:
        if ":" not in nm:
            cases.append([("atom", nm), ("op", "+"), ("atom", "b")])
        cases.append([("atom", "a"), ("op", "*"), ("atom", nm)])
    n_directed = len(cases)
    for _ in range(n):
        tl = []
        toks(gen_tree(rng, rng.randint(1, 5 if tier == "quick" else 6)), rng, tl)
        cases.append(tl)
    texts = [text_of(tl, rng) for tl in cases]
    # statement level: random nests (own generator state: the expression-level draws above are unchanged)
    rng_s = random.Random(seed() * 7919 + 171)
    scases = [[tuple(t) if isinstance(t, list) else t for t in tl] for tl in STMT_DIRECTED]
    n_sdirected = len(scases)
    ns = 500 if tier == "quick" else 5000
    smax = 4 if tier == "quick" else 6
    while len(scases) < n_sdirected + ns:
        d = rng_s.randint(1, smax)
        nest = ("block", [gen_stmt(rng_s, d - 1, True) for _ in range(rng_s.randint(1, 3))])
        tl = []
        stoks(nest, rng_s, tl)
        if len(tl) <= (110 if tier == "quick" else 160):
            scases.append(tl)
    stexts = [text_of(tl, rng_s) for tl in scases]
    if replay:
        rp = json.load(open(replay))
        if "expr" in rp:
            texts, cases = [rp["expr"]], [None]
            scases, stexts = [], []
        elif "stmt_text" in rp:
            texts, cases = [], []
            stexts, scases = [rp["stmt_text"]], [[tuple(t) if isinstance(t, list) else t for t in rp["stmt_tokens"]]]
    srcs = ["{ " + t + "; }" for t in texts]
    parsed = rc.parse_programs(srcs)
    drv = Driver()

    def tok_sx(t):
        return "lp" if t == "lp" else "rp" if t == "rp" else [t[0], Q(t[1])]

    reqs = [sx(["refparse"] + [tok_sx(t) for t in tl]) for tl in cases if tl is not None]
    reps = drv.run(reqs) if reqs else []
    sparsed = rc.parse_programs(stexts) if stexts else []
    sreps = drv.run([sx(["refparse-stmt"] + [tok_sx(t) for t in tl]) for tl in scases]) if scases else []
    viol = []
    evals, agree, rejected_both, amp_known = 0, 0, 0, 0
    want_class = dict(ATOMS + ALIAS_ATOMS + EXPLICIT_ATOMS)
    samples = []
    for i, (txt, tl, pr) in enumerate(zip(texts, cases, parsed)):
        evals += 1
        ref = sx_norm(parse_sx(reps[i])) if tl is not None else None
        if pr[0] != "ok":
            if ref == "none":
                rejected_both += 1
            else:
                viol.append({"what": f"Lark rejects ({pr[1]}) an expression the reference parser accepts", "expr": txt, "reference_tree": ref})
            continue
        tree = pr[1]
        # { expr ; } : fbody -> [expr]
        try:
            e = tree.children[0]
            from lark import Tree as _T
            while isinstance(e, _T) and e.data in ("block_item", "block_item_list", "fbody") and len(e.children) == 1:
                e = e.children[0]
            classes = []
            got = sx_norm(lark_to_sx(e, classes))
        except Exception as ex:
            viol.append({"what": f"unexpected tree shape: {ex}", "expr": txt})
            continue
        if len(samples) < 3:
            samples.append({"expr": txt, "tree": got})
        for a, c in classes:
            if a in want_class and want_class[a] != c:
                viol.append({"what": f"token {a} classified as {c}, expected {want_class[a]}", "expr": txt})
        if ref is not None and got != ref and has_amp_unary(got) and any(k["id"] == "C17-ptr-regex-swallows-neighbours" for k in known_for(PROP)):
            amp_known += 1
        elif ref is not None and got != ref:
            viol.append({"what": "Lark's tree differs from the C-structured tree of the reference parser", "expr": txt, "lark_tree": got, "reference_tree": ref})
        else:
            agree += 1
    # statement level: Lark's tree of each nest against the Lean reference statement parser (theorem refParseStmt_print)
    sc = {"evaluated": 0, "agree": 0, "rejected_by_both": 0, "dangling_else_known": 0, "dangling_else_known_through_for": 0,
          "dangling_shape_but_trees_agree": 0, "optional_semicolon_after_block": 0, "optional_semicolon_accepts_non_C": 0,
          "unary_amp_class": 0, "jump_semicolon_joined": 0, "with_stmt_expr": 0, "with_decl": 0, "with_for": 0, "with_else": 0,
          "max_brace_depth": 0}
    dangling_known = any(k["id"] == "C17-dangling-else-outer" for k in known_for(PROP))
    amp_known_listed = any(k["id"] == "C17-ptr-regex-swallows-neighbours" for k in known_for(PROP))
    semi_witness = kw_witness = None
    sc.update({"keyword_as_identifier": 0, "keyword_as_identifier_explained_by_if_call": 0})
    for txt, tl, pr, rep in zip(stexts, scases, sparsed, sreps):
        sc["evaluated"] += 1
        ref = sx_norm(parse_sx(rep))
        pay = {"stmt_text": txt, "stmt_tokens": [list(t) if isinstance(t, tuple) else t for t in tl]}
        words = [t[1] if isinstance(t, tuple) else t for t in tl]
        depth_ = cur = 0
        for w in words:
            cur += 1 if w == "{" else -1 if w == "}" else 0
            depth_ = max(depth_, cur)
        sc["max_brace_depth"] = max(sc["max_brace_depth"], depth_)
        sc["with_else"] += "else" in words
        sc["with_for"] += "for" in words
        sc["with_decl"] += any(isinstance(t, tuple) and t[0] == "ty" and i > 0 and tl[i - 1] != "lp" for i, t in enumerate(tl))
        sc["with_stmt_expr"] += any(tl[i] == "lp" and tl[i + 1] == ("op", "{") for i in range(len(tl) - 1))
        if pr[0] != "ok":
            if ref == "none":
                sc["rejected_by_both"] += 1
            else:
                viol.append(dict(pay, what=f"Lark rejects ({pr[1]}) a statement nest the reference parser accepts", reference_tree=ref))
            continue
        try:
            kids = pr[1].children                      # fbody : stmt*  — the behaviour is ONE compound statement
            if len(kids) != 1:
                raise ValueError(f"fbody with {len(kids)} statements")
            classes = []
            raw = sx_norm(lark_stmt_to_sx(kids[0], classes))
            got = join_jump(raw)
            sc["jump_semicolon_joined"] += got != raw
        except Exception as ex:
            viol.append(dict(pay, what=f"unexpected statement tree shape: {ex}", reference_tree=ref))
            continue
        for a, c in classes:
            if a in want_class and want_class[a] != c:
                viol.append(dict(pay, what=f"token {a} classified as {c}, expected {want_class[a]}"))
        if ref == "none":
            # the reference parser (C's rules) rejects the text, Lark accepts it
            if semi_accepts_non_c(tl) and any(k_["id"] == "C17-compound-optional-semicolon" for k_ in known_for(PROP)):
                sc["optional_semicolon_accepts_non_C"] += 1
                if semi_witness is None or len(txt) < len(semi_witness):
                    semi_witness = txt
            else:
                viol.append(dict(pay, what="Lark accepts a statement nest the reference parser (C's rules) rejects", lark_tree=got))
            continue
        if len(samples) < 5:
            samples.append({"stmt": txt, "tree": got})
        dg = dangling(ref)
        kw = has_keyword_ident(got)
        if got == ref:
            sc["agree"] += 1
            sc["dangling_shape_but_trees_agree"] += dg != 0
        elif got == drop_semi(ref) and any(k_["id"] == "C17-compound-optional-semicolon" for k_ in known_for(PROP)):
            sc["optional_semicolon_after_block"] += 1
            if semi_witness is None or len(txt) < len(semi_witness):
                semi_witness = txt
        elif kw and not any(k_["id"] == "C17-keyword-as-identifier" for k_ in known_for(PROP)):
            # a reserved word taken as an identifier (`if (c) ;` -> call of "if"): repaired in /repo, a violation if it returns
            viol.append(dict(pay, what="a statement keyword is parsed as an identifier: Lark's statement tree differs from the C-structured tree",
                             lark_tree=got, reference_tree=ref))
        elif kw:
            sc["keyword_as_identifier"] += 1
            sc["keyword_as_identifier_explained_by_if_call"] += got in (if_call(ref), drop_semi(if_call(ref)))
            if kw_witness is None or len(txt) < len(kw_witness):
                kw_witness = txt
        elif has_amp_unary(got) and amp_known_listed:
            sc["unary_amp_class"] += 1
        elif dg and dangling_known and skel(drop_semi(got)) == skel(drop_semi(ref)):
            # the listed finding: same token string, the trees differ ONLY in which if an else belongs to
            sc["dangling_else_known"] += 1
            sc["dangling_else_known_through_for"] += dg == 2
        else:
            viol.append(dict(pay, what="Lark's statement tree differs from the C-structured tree of the reference statement parser"
                                       + (" (beyond else attachment)" if dg else ""), lark_tree=got, reference_tree=ref))
    # deviations of the real grammar from C structure other than the listed dangling else.  They are counted (never hidden by a
    # normalisation); once the main session lists them in known_findings.json under these ids they are printed as KNOWN-FINDING.
    for cid, wit, n_, what in (
        ("C17-compound-optional-semicolon", semi_witness, sc["optional_semicolon_after_block"] + sc["optional_semicolon_accepts_non_C"],
         "a non-empty compound statement swallows a following ';' (grammar: \"{\" block_item_list \"}\" [\";\"]): the empty statement of `{ x; } ;` "
         "is missing from the tree, and the non-C text `if (a) { x; } ; else y;` is accepted"),
        ("C17-keyword-as-identifier", kw_witness, sc["keyword_as_identifier"],
         "reserved words are not reserved (IDENTIFIER matches if/else/for): `if (c) ;` parses as the expression statement calling a sub-routine "
         "`if`, `if (c) -x;` as the subtraction `if(c) - x`, `else ;` as the identifier `else`"),
    ):
        if wit is None:
            continue
        k = [k for k in known_for(PROP) if k["id"] == cid]
        if k:
            res.known(f"{k[0]['id']}: {k[0]['what']} [witness: {k[0].get('witness', wit)}] ({k[0].get('site', 'Resources/Hexagon/grammar.lark')})")
        else:
            res.notes.append(f"candidate finding {cid} (not listed, reported for triage): {what}; {n_} nests; e.g. {wit}")
    # statement-level structure: else binds to the nearest if; nesting; statement-expressions
    stmt_cases = {
        "{ if (a) { if (b) RdV = 1; else RdV = 2; } }": "inner",
        "{ if (a) if (b) RdV = 1; else RdV = 2; }": "inner",
    }
    sp = rc.parse_programs(list(stmt_cases))
    for (src, want), pr in zip(stmt_cases.items(), sp):
        if pr[0] != "ok":
            viol.append({"what": "statement nest rejected", "program": src})
            continue
        outer = pr[1].children[0]
        from lark import Tree as _T
        while isinstance(outer, _T) and outer.data in ("block_item", "block_item_list") and len(outer.children) == 1:
            outer = outer.children[0]
        # selection_stmt children: IF cond stmt [ELSE stmt]
        binds = "outer" if len(outer.children) > 3 else "inner"
        if binds != want:
            if "{ if (b)" in src:
                viol.append({"what": "else does not bind to the nearest if (braced)", "program": src})
            else:
                k = [k for k in known_for(PROP) if k["id"] == "C17-dangling-else-outer"]
                if k:
                    res.known(f"{k[0]['id']}: {k[0]['what']} [witness: {src}] ({k[0]['site']})")
                else:
                    viol.append({"what": "dangling else binds to the outer if", "program": src})
    # the statement `JUMP(x);` is a jump statement in every statement position
    jump_ctx = ["{ JUMP(RsV); }", "{ if (a) JUMP(RsV); }", "{ if (a) { JUMP(RsV); } else b = 1; }", "{ for (i = 0; i < 2; i++) JUMP(RsV); }",
                "{ if (a) b = 1; else JUMP(RsV); }", "{ if (a) JUMP(RsV); else b = 1; }", "{ if (a) JUMP(RsV); else JUMP(RtV); }", "{ if (a) if (b) JUMP(RsV); else c = 1; }"]
    jump_bad = []
    for src, pr in zip(jump_ctx, rc.parse_programs(jump_ctx)):
        if pr[0] != "ok":
            jump_bad.append((src, "rejected: " + str(pr[1])))
            continue
        n_jump = len(list(pr[1].find_data("jump")))
        n_call = len([t_ for t_ in pr[1].find_data("sub_routine") if any(str(getattr(c_, "children", [""])[0] if hasattr(c_, "children") else c_) == "JUMP" for c_ in t_.children[:1])])
        if n_jump != src.count("JUMP(") or n_call:
            jump_bad.append((src, f"{n_jump} jump statements, {n_call} calls of a sub-routine JUMP"))
    kj = [k for k in known_for(PROP) if k["id"] == "C17-jump-before-else-parsed-as-call"]
    unlisted = [b_ for b_ in jump_bad if not (kj and re.search(r"JUMP\(\w+\); else", b_[0]))]
    if unlisted:
        viol.append({"what": f"`JUMP(x);` is not parsed as a jump statement: {unlisted[:3]}", "stmt_text": unlisted[0][0]})
    elif jump_bad:
        res.known(f"{kj[0]['id']}: {kj[0]['what']} [{len(jump_bad)} of {len(jump_ctx)} contexts of this run, e.g. {jump_bad[0][0]} -> {jump_bad[0][1]}] ({kj[0]['site']})")
    elif kj:
        res.notes.append("known finding C17-jump-before-else-parsed-as-call no longer reproduces")
    # explicit registers whose number has a digit 4..9
    hp = rc.parse_programs(["{ RdV = a * %s; }" % nm for nm in EXPLICIT_HIGH])
    high_bad = []
    for nm, pr in zip(EXPLICIT_HIGH, hp):
        cl = []
        if pr[0] == "ok":
            e = pr[1].children[0]
            from lark import Tree as _T
            while isinstance(e, _T) and e.data in ("block_item", "block_item_list") and len(e.children) == 1:
                e = e.children[0]
            try:
                lark_to_sx(e, cl)
            except Exception:
                pass
        if not any(c_ == "explicit_reg" and a_ == nm for a_, c_ in cl):
            high_bad.append((nm, pr[0] if pr[0] != "ok" else [c_ for a_, c_ in cl if a_ in (nm, nm.split(":")[0], nm.replace("_NEW", ""))]))
    kh = [k for k in known_for(PROP) if k["id"] == "C17-explicit-register-digits"]
    if high_bad and kh:
        res.known(f"{kh[0]['id']}: {kh[0]['what']} [{len(high_bad)} of {len(EXPLICIT_HIGH)} spellings of this run, e.g. {high_bad[0][0]} -> {high_bad[0][1]}] ({kh[0]['site']})")
    elif high_bad:
        viol.append({"what": f"explicitly numbered registers are not classified as explicit registers: {high_bad[:4]}", "expr": "a * " + high_bad[0][0]})
    elif kh:
        res.notes.append("known finding C17-explicit-register-digits no longer reproduces")
    for k in [k for k in known_for(PROP) if k["id"] == "C17-ptr-regex-swallows-neighbours"]:
        wp = rc.parse_programs([k["witness"]])[0]
        ok_ = False
        if wp[0] == "ok":
            cl = []
            e = wp[1].children[0]
            from lark import Tree as _T
            while isinstance(e, _T) and e.data in ("block_item", "block_item_list") and len(e.children) == 1:
                e = e.children[0]
            ok_ = has_amp_unary(sx_norm(lark_to_sx(e, cl)))
        if ok_:
            res.known(f"{k['id']}: {k['what']} [witness: {k['witness']}] ({k['site']})")
        else:
            res.notes.append(f"known finding {k['id']} no longer reproduces")
    # determinism across processes / hash seeds / parser construction sites
    beh = rc.load_behaviours()
    dn = rc.sample_names(beh, seed(), per_group=1, per_feature=0)[: (12 if tier == "quick" else 80)]
    dtexts = AMBIG + [beh[n_][0] for n_ in dn if len(beh[n_][0]) < 400] + srcs[:20] + [t for pr_ in CONFUSABLE for t in pr_] + stexts[:24]
    dtexts = list(dict.fromkeys(dtexts))
    seeds = [0, 1, 2, 3] if tier == "quick" else list(range(16))
    procs = []
    okp = [pr_[0] == "ok" for pr_ in rc.parse_programs([t for cp in CONFUSABLE for t in cp])]
    conf = [cp for k_, cp in enumerate(CONFUSABLE) if okp[2 * k_] and okp[2 * k_ + 1]]    # a failing part voids its whole instruction (C18)
    code = CHILD % {"repo": REPO, "texts": json.dumps(dtexts), "pairs": json.dumps(conf)}
    for hs in seeds:
        env = dict(os.environ, PYTHONHASHSEED=str(hs))
        procs.append((hs, subprocess.Popen(["/venv/bin/python", "-c", code], cwd=REPO, env=env, stdout=subprocess.PIPE, stderr=subprocess.DEVNULL, text=True)))
    digests = {}
    for hs, p in procs:
        out, _ = p.communicate(timeout=900)
        try:
            digests[hs] = json.loads(out.strip().split("\n")[-1])
        except Exception:
            viol.append({"what": f"child process for PYTHONHASHSEED={hs} produced no result"})
    for t in dtexts:
        vals = {hs: tuple(d.get(t, [])) for hs, d in digests.items()}
        flat = {x for v in vals.values() for x in v}
        if len(flat) > 1:
            viol.append({"what": "the same text yields different trees across processes / hash seeds / parser construction sites (Compiler.parser vs Parser.parse)",
                         "text": t, "digests_by_PYTHONHASHSEED": {str(k): v for k, v in vals.items()}})
    rc.close_pool()

    def search():
        for v in viol[:3]:
            res.violation(v)
        return len(viol)

    if proof_gate(res, st, search):
        for v in viol[:3]:
            res.violation(v)
    res.coverage.update({
        "evaluations": evals + sc["evaluated"] + len(dtexts) * len(seeds), "distinct_nontrivial": len(set(texts)) + len(set(stexts)),
        "rule": "all 256 ordered pairs of binary operators without parentheses (exhaustive) + random expression token strings (depth <= 5/6, random parenthesisation and spacing, all operand token classes, casts, unary, ?:, postfix) parsed by Lark and by the Lean reference parser; random statement nests (brace depth <= 4/6: blocks, if/else chains incl. dangling shapes, for, declarations, statement-expressions inside expressions, empty statements, JUMP) parsed by Lark and by the Lean reference statement parser, compared after the tree-shape normalisations N1..N4; texts re-parsed in fresh processes per PYTHONHASHSEED through both parser construction sites. distinct = distinct expression texts + distinct statement texts",
        "statement_nests": sc,
        "agree": agree, "unary_amp_class_occurrences": amp_known, "rejected_by_both": rejected_both, "hash_seeds": seeds, "determinism_texts": len(dtexts), "confusable_pairs_both_orders": len(conf), "violations_total": len(viol), "samples": samples,
    })
    res.assumptions.append("Earley ambiguity resolution inside lark is sampled over hash seeds, not proved")
    return res.finish(TB, "cd lean && lake build RzilVerif.Props.C17 RzilVerif.Props.C17Shape")
