"""C17 — the grammar parses behaviours with C structure, deterministically.

Theorems: lean/RzilVerif/Props/C17.lean (refParse_print for ALL expression trees: the reference
precedence parser inverts the minimal-parenthesis printer; precedence/associativity lemmas) and
Props/C17Shape.lean (kernel-decided facts about the REGENERATED grammar: tower levels/order/recursion
side/operators, terminal spellings and priorities, the two `if` alternatives).
Tie: translator (Gen/GrammarGen.lean through Lark's own loader) + correspondence with Lark: random token
strings over the dialect (random parenthesisation and spacing) parsed by the real parser and by the Lean
reference parser; token classification of operand atoms; statement nests; and the same texts parsed in fresh
processes under several PYTHONHASHSEED values through both parser construction sites.
Partial: determinism across hash seeds is runtime behaviour of a third-party library; it is sampled.
"""
from __future__ import annotations

import hashlib
import random
import subprocess

from common import *  # noqa
import realcode as rc
import translate

PROP = "C17"
TB = [
    "Lean 4.33 kernel; axioms propext, Classical.choice, Quot.sound (audited per theorem)",
    "translator gen_grammar (Lark's own grammar loader -> Gen/GrammarGen.lean); reference parser/printer Model/Grammar.lean",
    "harness: expression generator, Lark tree -> expression tree conversion, child processes with PYTHONHASHSEED",
    "lark (third party) is the implementation under test for ambiguity resolution; observed by behaviour, sampled over hash seeds",
]
BIN = ["||", "&&", "|", "^", "&", "==", "!=", "<", ">", "<=", ">=", "<<", ">>", "+", "-", "*"]
ATOMS = [("RsV", "reg"), ("RtV", "reg"), ("RddV", "reg"), ("PuV", "reg"), ("NsN", "new_reg"), ("PtN", "new_reg"), ("siV", "imm"), ("UiV", "imm"),
         ("0x10", "number"), ("7", "number"), ("1ULL", "number"), ("a", "identifier"), ("b", "identifier"), ("tmp", "identifier"), ("EA", "identifier"),
         ("P0", "explicit_reg"), ("R31", "explicit_reg"), ("P1_NEW", "explicit_reg"), ("HEX_REG_ALIAS_SP", "reg_alias"), ("HEX_REG_ALIAS_LR_NEW", "reg_alias")]
TYPES = ["int32_t", "uint8_t", "size4u_t", "int", "unsigned"]
AMBIG = ["{ a = 1; { b = 1; } ; }", "{ a = b---c; }", "{ if (a) if (b) RdV = 1; else RdV = 2; }", "{ RdV = RsV&&RtV; }", "{ RdV = a & b && c; }",
         "{ RdV = (a)-b; }", "{ RdV = (int)-b; }", "{ RdV = a ? b : c ? d : e; }", "{ RdV = ({ int x = 1; x; }) + 1; }", "{ {} ; {} }"]


def gen_tree(rng, depth):
    if depth <= 0 or rng.random() < 0.2:
        return ("atom",) + rng.choice(ATOMS)
    k = rng.random()
    if k < 0.6:
        return ("bin", rng.choice(BIN), gen_tree(rng, depth - 1), gen_tree(rng, depth - 1))
    if k < 0.7:
        return ("un", rng.choice(["-", "~", "!"]), gen_tree(rng, depth - 1))
    if k < 0.78:
        return ("cast", rng.choice(TYPES), gen_tree(rng, depth - 1))
    if k < 0.88:
        return ("tern", gen_tree(rng, depth - 1), gen_tree(rng, depth - 1), gen_tree(rng, depth - 1))
    if k < 0.94:
        return ("post", rng.choice(["++", "--"]), ("atom", "a", "identifier"))
    return ("paren", gen_tree(rng, depth - 1))


def toks(t, rng, out):
    """token list with random extra parentheses (every sub-expression is parenthesised or not at random when
    that is syntactically unambiguous for a HUMAN reader of C: we emit fully explicit parentheses with
    probability 1/2, otherwise none — the reference parser then decides the structure)."""
    k = t[0]
    if k == "atom":
        out.append(("atom", t[1]))
    elif k == "paren":
        out.append("lp"); toks(t[1], rng, out); out.append("rp")
    elif k == "bin":
        for side, sub in (("l", t[2]), ("r", t[3])):
            if side == "r":
                out.append(("op", t[1]))
            if rng.random() < 0.4 and sub[0] != "atom":
                out.append("lp"); toks(sub, rng, out); out.append("rp")
            else:
                toks(sub, rng, out)
    elif k == "un":
        out.append(("op", t[1]))
        if rng.random() < 0.5 and t[2][0] != "atom":
            out.append("lp"); toks(t[2], rng, out); out.append("rp")
        else:
            toks(t[2], rng, out)
    elif k == "cast":
        out.append("lp"); out.append(("ty", t[1])); out.append("rp")
        if rng.random() < 0.5 and t[2][0] != "atom":
            out.append("lp"); toks(t[2], rng, out); out.append("rp")
        else:
            toks(t[2], rng, out)
    elif k == "tern":
        toks(t[1], rng, out); out.append(("op", "?")); toks(t[2], rng, out); out.append(("op", ":")); toks(t[3], rng, out)
    elif k == "post":
        toks(t[2], rng, out); out.append(("op", t[1]))


def text_of(tl, rng):
    s = ""
    prev = None
    for t in tl:
        w = "(" if t == "lp" else ")" if t == "rp" else t[1]
        # spacing: random, but never glue two operator tokens that would lex as another operator
        glue = rng.random() < 0.35
        if prev is not None:
            a = "(" if prev == "lp" else ")" if prev == "rp" else prev[1]
            if not glue or (a[-1] in "+-&|<>=!*~?:" and w[0] in "+-&|<>=!*~") or (a[-1].isalnum() and w[0].isalnum()) or a[-1] == "_" or w[0] == "_" \
                    or a == ":" or w == ":":     # `R31:1` glued would be the spelling of an explicit register pair
                s += " "
        s += w
        prev = t
    return s


def lark_to_sx(t, classes):
    """Lark tree of an expression -> the reference parser's tree shape (S-expression as nested lists)."""
    from lark import Tree, Token

    if isinstance(t, Token):
        return ["atom", Q(str(t))]
    d = t.data
    ch = t.children
    leaf = {"reg": lambda c: "".join(str(x) for x in c) + "V", "new_reg": lambda c: "".join(str(x) for x in c) + "N",
            "imm": lambda c: str(c[0]) + "iV", "identifier": lambda c: str(c[0]),
            "explicit_reg": lambda c: str(c[0]) + ("_NEW" if c[1] is not None else ""),
            "reg_alias": lambda c: "HEX_REG_ALIAS_" + str(c[0]) + ("_NEW" if c[1] is not None else "")}
    if d in leaf:
        txt = leaf[d](ch)
        classes.append((txt, str(d)))
        return ["atom", Q(txt)]
    if d == "number":
        txt = str(ch[0]) + (str(ch[1]) if len(ch) > 1 and ch[1] is not None else "")
        classes.append((txt, "number"))
        return ["atom", Q(txt)]
    if d in ("multiplicative_expr", "additive_expr", "shift_expr", "relational_expr", "equality_expr", "and_expr", "exclusive_or_expr",
             "inclusive_or_expr", "logical_and_expr", "logical_or_expr"):
        return ["bin", Q(str(ch[1])), lark_to_sx(ch[0], classes), lark_to_sx(ch[2], classes)]
    if d == "unary_expr":
        return ["un", Q(str(ch[0])), lark_to_sx(ch[1], classes)]
    if d == "cast_expr":
        return ["cast", Q(type_text(ch[0])), lark_to_sx(ch[1], classes)]
    if d == "conditional_expr":
        return ["tern", lark_to_sx(ch[0], classes), lark_to_sx(ch[1], classes), lark_to_sx(ch[2], classes)]
    if d == "assignment_expr":
        return ["assign", Q(str(ch[1])), lark_to_sx(ch[0], classes), lark_to_sx(ch[2], classes)]
    if d == "postfix_expr":
        return ["post", Q(str(ch[1])), lark_to_sx(ch[0], classes)]
    return ["other", Q(str(d))]


def type_text(t):
    from lark import Tree

    if isinstance(t, Tree):
        parts = []
        for c in t.iter_subtrees_topdown():
            pass
        toks_ = [str(x) for x in t.scan_values(lambda v: True)]
        if t.data == "type_specifier" and t.children and isinstance(t.children[0], Tree):
            inner = t.children[0]
            if inner.data == "c_int_type":
                return f"{inner.children[0]}{inner.children[1]}_t"
            if inner.data == "c_size_type":
                return f"size{inner.children[0]}{inner.children[1]}_t"
        return "".join(toks_)
    return str(t)


def has_amp_unary(x):
    # the listed class: the "operator" token swallowed a neighbouring character (its text is more than a bare &)
    return isinstance(x, list) and ((len(x) > 1 and x[0] == "un" and "&" in str(x[1]) and str(x[1]).strip() != "&") or any(has_amp_unary(y) for y in x))


def sx_norm(x):
    if isinstance(x, Q):
        return x.s if "&" in x.s else x.s.strip()
    if isinstance(x, list):
        return [sx_norm(y) for y in x]
    return x


# texts that differ only in layout a lossy normalisation could erase (spacing next to operators, redundant parentheses,
# letter case of a suffix): parsed as the two parts of ONE instruction (same worker process), in both orders
CONFUSABLE = [("{ RdV = i++ + j; }", "{ RdV = i + ++j; }"), ("{ RdV = a-- - b; }", "{ RdV = a - --b; }"), ("{ RdV = a & &b; }", "{ RdV = a && b; }"),
              ("{ RdV = a - -b; }", "{ RdV = a-- b; }"), ("{ RdV = (a) - b; }", "{ RdV = (a)-b; }"), ("{ RdV = a * (b + c); }", "{ RdV = a * b + c; }"),
              ("{ RdV = 1U; }", "{ RdV = 1u; }"), ("{ if (a) RdV = 1; else RdV = 2; }", "{ if (a) { RdV = 1; } else { RdV = 2; } }"),
              ("{ RdV = a < b; }", "{ RdV = a << b; }"), ("{ RdV = RsV; }", "{ RdV = Rsv; }"), ("{ RdV = (int8_t) a; }", "{ RdV = (int8_t)a; }")]


CHILD = r"""
import sys, hashlib, json
sys.path.insert(0, %(repo)r)
import os; os.chdir(%(repo)r)
import io
so = sys.stdout; sys.stdout = io.StringIO()
from rzilcompiler.Compiler import Compiler
from rzilcompiler.Parser import Parser
import types
texts = json.loads(%(texts)r)
d = types.SimpleNamespace(); Compiler.set_lark_parser(d)
out = {}
for t in texts:
    try:
        a = hashlib.sha1(str(d.parser.parse(t)).encode()).hexdigest()[:12]
    except Exception as e:
        a = "exc:" + type(e).__name__
    out[t] = [a]
res = Parser.parse({"T%%d" %% i: [t] for i, t in enumerate(texts)})
for i, t in enumerate(texts):
    pi = res["T%%d" %% i]
    out[t].append(hashlib.sha1(str(pi.asts[0]).encode()).hexdigest()[:12] if pi.asts else "exc:" + pi.exception.name)
pairs = json.loads(%(pairs)r)
flip = int(os.environ.get("PYTHONHASHSEED", "0")) %% 2
for k, pr in enumerate(pairs):
    parts = list(pr)[::-1] if flip else list(pr)
    pi = Parser.parse({"PAIR%%d" %% k: parts})["PAIR%%d" %% k]
    for j, t in enumerate(parts):
        out.setdefault(t, []).append(hashlib.sha1(str(pi.asts[j]).encode()).hexdigest()[:12] if len(pi.asts) == len(parts) else "exc:" + (pi.exception.name if pi.exception else "trees"))
sys.stdout = so
print(json.dumps(out))
"""


def run(tier: str, replay=None) -> int:
    res = Result(PROP, tier)
    st = prepare(PROP, translate=translate.run_all, extra_modules=["RzilVerif.Props.C17Shape"])
    res.proof = st
    use_repo()
    rng = random.Random(seed() * 2027 + 17)
    n = 250 if tier == "quick" else 4000
    cases = []
    # exhaustive: all ordered operator pairs, both association orders, without parentheses
    for o1 in BIN:
        for o2 in BIN:
            cases.append([("atom", "a"), ("op", o1), ("atom", "b"), ("op", o2), ("atom", "c")])
    # a postfix ++/-- in front of every binary operator (several of them are unary operators as well: maximal munch)
    for pf in ("++", "--"):
        for o in BIN:
            cases.append([("atom", "a"), ("op", pf), ("op", o), ("atom", "b")])
            cases.append([("atom", "c"), ("op", o), ("atom", "a"), ("op", pf), ("op", o), ("atom", "b")])
    # a cast between two operators that are unary operators as well: `a - (int32_t) - b` is a - ((int32_t)(-b)), the type
    # name is not an identifier in parentheses
    for ty in TYPES:
        for o in ("+", "-", "*", "&", "|", "<<", "==", "&&"):
            for o2 in ("-", "~", "!"):
                cases.append([("atom", "a"), ("op", o), "lp", ("ty", ty), "rp", ("op", o2), ("atom", "b")])
    n_directed = len(cases)
    for _ in range(n):
        tl = []
        toks(gen_tree(rng, rng.randint(1, 5 if tier == "quick" else 6)), rng, tl)
        cases.append(tl)
    texts = [text_of(tl, rng) for tl in cases]
    if replay:
        rp = json.load(open(replay))
        if "expr" in rp:
            texts, cases = [rp["expr"]], [None]
    srcs = ["{ " + t + "; }" for t in texts]
    parsed = rc.parse_programs(srcs)
    drv = Driver()

    def tok_sx(t):
        return "lp" if t == "lp" else "rp" if t == "rp" else [t[0], Q(t[1])]

    reqs = [sx(["refparse"] + [tok_sx(t) for t in tl]) for tl in cases if tl is not None]
    reps = drv.run(reqs) if reqs else []
    viol = []
    evals, agree, rejected_both, amp_known = 0, 0, 0, 0
    want_class = dict(ATOMS)
    samples = []
    for i, (txt, tl, pr) in enumerate(zip(texts, cases, parsed)):
        evals += 1
        ref = sx_norm(parse_sx(reps[i])) if tl is not None else None
        if pr[0] != "ok":
            if ref == "none":
                rejected_both += 1
            else:
                viol.append({"what": f"Lark rejects ({pr[1]}) an expression the reference parser accepts", "expr": txt, "reference_tree": ref})
            continue
        tree = pr[1]
        # { expr ; } : fbody -> [expr]
        try:
            e = tree.children[0]
            from lark import Tree as _T
            while isinstance(e, _T) and e.data in ("block_item", "block_item_list", "fbody") and len(e.children) == 1:
                e = e.children[0]
            classes = []
            got = sx_norm(lark_to_sx(e, classes))
        except Exception as ex:
            viol.append({"what": f"unexpected tree shape: {ex}", "expr": txt})
            continue
        if len(samples) < 3:
            samples.append({"expr": txt, "tree": got})
        for a, c in classes:
            if a in want_class and want_class[a] != c:
                viol.append({"what": f"token {a} classified as {c}, expected {want_class[a]}", "expr": txt})
        if ref is not None and got != ref and has_amp_unary(got) and any(k["id"] == "C17-ptr-regex-swallows-neighbours" for k in known_for(PROP)):
            amp_known += 1
        elif ref is not None and got != ref:
            viol.append({"what": "Lark's tree differs from the C-structured tree of the reference parser", "expr": txt, "lark_tree": got, "reference_tree": ref})
        else:
            agree += 1
    # statement-level structure: else binds to the nearest if; nesting; statement-expressions
    stmt_cases = {
        "{ if (a) { if (b) RdV = 1; else RdV = 2; } }": "inner",
        "{ if (a) if (b) RdV = 1; else RdV = 2; }": "inner",
    }
    sp = rc.parse_programs(list(stmt_cases))
    for (src, want), pr in zip(stmt_cases.items(), sp):
        if pr[0] != "ok":
            viol.append({"what": "statement nest rejected", "program": src})
            continue
        outer = pr[1].children[0]
        from lark import Tree as _T
        while isinstance(outer, _T) and outer.data in ("block_item", "block_item_list") and len(outer.children) == 1:
            outer = outer.children[0]
        # selection_stmt children: IF cond stmt [ELSE stmt]
        binds = "outer" if len(outer.children) > 3 else "inner"
        if binds != want:
            if "{ if (b)" in src:
                viol.append({"what": "else does not bind to the nearest if (braced)", "program": src})
            else:
                k = [k for k in known_for(PROP) if k["id"] == "C17-dangling-else-outer"]
                if k:
                    res.known(f"{k[0]['id']}: {k[0]['what']} [witness: {src}] ({k[0]['site']})")
                else:
                    viol.append({"what": "dangling else binds to the outer if", "program": src})
    for k in [k for k in known_for(PROP) if k["id"] == "C17-ptr-regex-swallows-neighbours"]:
        wp = rc.parse_programs([k["witness"]])[0]
        ok_ = False
        if wp[0] == "ok":
            cl = []
            e = wp[1].children[0]
            from lark import Tree as _T
            while isinstance(e, _T) and e.data in ("block_item", "block_item_list") and len(e.children) == 1:
                e = e.children[0]
            ok_ = has_amp_unary(sx_norm(lark_to_sx(e, cl)))
        if ok_:
            res.known(f"{k['id']}: {k['what']} [witness: {k['witness']}] ({k['site']})")
        else:
            res.notes.append(f"known finding {k['id']} no longer reproduces")
    # determinism across processes / hash seeds / parser construction sites
    beh = rc.load_behaviours()
    dn = rc.sample_names(beh, seed(), per_group=1, per_feature=0)[: (12 if tier == "quick" else 80)]
    dtexts = AMBIG + [beh[n_][0] for n_ in dn if len(beh[n_][0]) < 400] + srcs[:20] + [t for pr_ in CONFUSABLE for t in pr_]
    dtexts = list(dict.fromkeys(dtexts))
    seeds = [0, 1, 2, 3] if tier == "quick" else list(range(16))
    procs = []
    okp = [pr_[0] == "ok" for pr_ in rc.parse_programs([t for cp in CONFUSABLE for t in cp])]
    conf = [cp for k_, cp in enumerate(CONFUSABLE) if okp[2 * k_] and okp[2 * k_ + 1]]    # a failing part voids its whole instruction (C18)
    code = CHILD % {"repo": REPO, "texts": json.dumps(dtexts), "pairs": json.dumps(conf)}
    for hs in seeds:
        env = dict(os.environ, PYTHONHASHSEED=str(hs))
        procs.append((hs, subprocess.Popen(["/venv/bin/python", "-c", code], cwd=REPO, env=env, stdout=subprocess.PIPE, stderr=subprocess.DEVNULL, text=True)))
    digests = {}
    for hs, p in procs:
        out, _ = p.communicate(timeout=900)
        try:
            digests[hs] = json.loads(out.strip().split("\n")[-1])
        except Exception:
            viol.append({"what": f"child process for PYTHONHASHSEED={hs} produced no result"})
    for t in dtexts:
        vals = {hs: tuple(d.get(t, [])) for hs, d in digests.items()}
        flat = {x for v in vals.values() for x in v}
        if len(flat) > 1:
            viol.append({"what": "the same text yields different trees across processes / hash seeds / parser construction sites (Compiler.parser vs Parser.parse)",
                         "text": t, "digests_by_PYTHONHASHSEED": {str(k): v for k, v in vals.items()}})
    rc.close_pool()

    def search():
        for v in viol[:3]:
            res.violation(v)
        return len(viol)

    if proof_gate(res, st, search):
        for v in viol[:3]:
            res.violation(v)
    res.coverage.update({
        "evaluations": evals + len(dtexts) * len(seeds), "distinct_nontrivial": len(set(texts)),
        "rule": "all 256 ordered pairs of binary operators without parentheses (exhaustive) + random expression token strings (depth <= 5/6, random parenthesisation and spacing, all operand token classes, casts, unary, ?:, postfix) parsed by Lark and by the Lean reference parser; statement nests; texts re-parsed in fresh processes per PYTHONHASHSEED through both parser construction sites. distinct = distinct expression texts",
        "agree": agree, "unary_amp_class_occurrences": amp_known, "rejected_by_both": rejected_both, "hash_seeds": seeds, "determinism_texts": len(dtexts), "confusable_pairs_both_orders": len(conf), "violations_total": len(viol), "samples": samples,
    })
    res.assumptions.append("Earley ambiguity resolution inside lark is sampled over hash seeds, not proved")
    return res.finish(TB, "cd lean && lake build RzilVerif.Props.C17 RzilVerif.Props.C17Shape")
