"""Shared by the semantic properties (C01-C03, C05, C06, C08, C09): send a program (as AST) and the real
emitted text to Lean, which (a) compares the model's lowering with the real tree and (b) executes the
C program and the REAL effect on sampled states."""
from __future__ import annotations

import gen
from common import *  # noqa

SRC = {n for n, _ in gen.SRC_REGS}
DST = {n for n, _ in gen.DEST_REGS}
RW = {n for n, _ in gen.RW_REGS}
NEW = {n for n, _ in gen.NEW_REGS}


def reg_kind(name: str) -> str:
    if name.startswith("HEX_REG_ALIAS_"):
        if name == "HEX_REG_ALIAS_PC":
            return "pc"
        return "aliasNew" if name.endswith("_NEW") else "alias"
    import re as _re
    m = _re.fullmatch(r"[A-Z]([a-z])\1?([VN])", name)
    if m:
        if m.group(2) == "N":
            return "new"
        return "src" if m.group(1) in "stuvw" else ("dst" if m.group(1) in "de" else "rw")
    if name in SRC:
        return "src"
    if name in DST:
        return "dst"
    if name in RW:
        return "rw"
    if name in NEW:
        return "new"
    if name.endswith("_NEW"):
        return "explicitNew"
    return "explicit"


class Unmodelled(Exception):
    pass


CALL_SIGS = {}      # generated sub-routines: name -> (param types, return type)


def ct(t):
    return [bool(t[0]), t[1]]


def ex(e):
    k = e[0]
    if k == "reg":
        return ["reg", Q(e[1]), reg_kind(e[1]), ct(e[2])]
    if k == "imm":
        return ["imm", Q(e[1][0]), bool(e[2][0])]
    if k == "lit":
        txt = e[1]
        if txt.startswith("sizeof"):
            return ["lit", e[2], False, Q("SZ")]
        hexa = txt.lower().startswith("0x")
        sfx = ""
        body = txt
        while body and body[-1] in "uUlL":
            sfx = body[-1] + sfx
            body = body[:-1]
        return ["lit", e[2], hexa, Q(sfx.upper())]
    if k == "var":
        return ["var", Q(e[1]), ct(e[2])]
    if k == "cast":
        return ["cast", ct(e[2]), ex(e[3])]
    if k == "un":
        return ["un", Q(e[1]), ex(e[2])]
    if k == "not":
        return ["not", ex(e[1])]
    if k in ("bin", "shift", "cmp", "log"):
        return [k, Q(e[1]), ex(e[2]), ex(e[3])]
    if k == "tern":
        return ["tern", ex(e[1]), ex(e[2]), ex(e[3])]
    if k == "macro":
        return ["macro", Q(e[1]), [ex(a) for a in e[2]], ct(e[3]), [ct(p) for p in gen.MACRO_PARAMS[e[1]]]]
    if k == "load":
        return ["load", e[3] == "s", e[4], ct(e[2])]
    if k == "post":
        return ["post", Q(e[1]), ct(e[3] if len(e) > 3 else (False, 32)), Q(e[2])]
    if k == "call":
        params = dict((c[0], c[1]) for c in gen.CALLS).get(e[1]) or CALL_SIGS[e[1]][0]
        return ["call", Q(e[1]), [ex(a) for a in e[2]], ct(e[3]), [ct(p) for p in params]]
    if k == "stmtexpr":
        return ["stmtexpr", ct(e[2]), Q(e[3]), ex(e[4])]
    if k == "seqexpr":
        return ["seqexpr", Q(e[1]), [Q(x) for x in e[2]], [ex(a) for a in e[3]], [ct(p) for p in gen.VOID_PARAMS[e[1]]], ex(e[4])]
    if k == "callx":
        _, params, ret = gen.XCALL_SIGS[e[1]]
        return ["callx", Q(e[1]), [Q(gen.ext_token(x)) for x in e[2]], [ex(a) for a in e[3]], ct(e[4]), [ct(p) for p in params]]
    if k == "xmacro":
        return ["xmacro", Q(e[1]), [Q(gen.ext_token(x)) for x in e[2]], ct(e[3])]
    raise Unmodelled(k)


def stmts(ss):
    out = []
    for s in ss:
        k = s[0]
        if k == "decl":
            out.append(["decl", ct(s[2]), Q(s[3])] + ([ex(s[4])] if s[4] is not None else []))
        elif k == "assign":
            out.append(["assign", ex(s[1]), Q(s[2]), ex(s[3])])
        elif k == "store":
            if s[2] is not None:
                out.append(["assign", ["var", Q("EA"), [False, 32]], Q("="), ex(s[2])])
            out.append(["store", s[1], ex(s[3])])
        elif k == "if":
            out.append(["if", ex(s[1]), stmts(s[2])] + ([stmts(s[3])] if s[3] is not None else []))
        elif k == "for":
            v = ("var", s[1], tuple(s[6]) if len(s) > 6 and s[6] else (False, 32))
            cond = ("cmp", "<", v, s[2])
            if len(s) > 4 and s[4]:
                if s[4][0] == "andcmp":
                    cond = ("log", "&&", cond, s[4][1])
                elif s[4][0] == "intand":
                    cond = ("log", "&&", s[4][1], s[4][2])
                elif s[4][0] == "not":
                    cond = ("not", ("cmp", ">=", v, s[2]))
            out.append(["for", Q(s[1]), ex(cond), (s[5] if len(s) > 5 and s[5] else 0), stmts(s[3])])
        elif k == "chain":
            out.append(["chain", ex(s[1]), ex(s[2]), Q(s[3]), ex(s[4])])
        elif k == "jump":
            out.append(["jump", ex(s[1])])
        elif k == "raw":
            out.append(["skip", Q(s[1])])
        elif k == "block":
            out.extend(stmts(s[1]))
        elif k == "exprstmt":
            out.append(["exprstmt", ex(s[1])])
        elif k == "ret":
            out.append(["ret", ex(s[1])])
        elif k == "vcall":
            out.append(["vcall", Q(s[1]), [Q(x) for x in s[2]], [ex(a) for a in s[3]], [ct(p) for p in gen.VOID_PARAMS[s[1]]]])
        else:
            raise Unmodelled(k)
    return out


def prog_sx(ast):
    """S-expression of a program AST, or None if it uses a construct the lowering model does not cover."""
    try:
        return stmts(ast)
    except Unmodelled:
        return None


def parse_sem(line: str) -> dict:
    r = parse_sx(line)
    if not isinstance(r, list) or not r or r[0] != "sem":
        return {"error": line[:200]}
    d = {}
    for item in r[1:]:
        k = item[0]
        v = [x.s if isinstance(x, Q) else x for x in item[1:]]
        if k in ("parsed", "tree-equal"):
            d[k] = v[0] == "1"
        elif k in ("certified", "certified-sem", "certified-semx", "pure-equal"):
            d[k] = v[0]
        elif k in ("ran", "skipped"):
            d[k] = int(v[0])
        elif k == "fail":
            d[k] = v[0] if v else None
        else:
            d[k] = v[0] if v else None
    return d


def sem_requests(items, nstates: int, sd: int, cfg="asCode", fmt="READ_STATEMENTS", csubs=()):
    """items: outcomes of textcheck.gen_run (with 'ast' and 'text'). Returns [(index, request line)]."""
    reqs = []
    for i, it in enumerate(items):
        if it.get("status") != "ok" or it.get("ast") is None:
            continue
        sxp = prog_sx(it["ast"])
        if sxp is None:
            continue
        reqs.append((i, sx(["sem", cfg, sxp, Q(it["text"][fmt]), nstates, sd, list(csubs)])))
    return reqs
