"""Shared infrastructure of the /verif checks.

Every check is  `./check Cxx [--tier quick|thorough] [--replay file]`.
A check = (1) translators + `lake build` of the property's theorems + axiom audit,
          (2) correspondence of the Lean model (driver `rzilverif`) with the real code in /repo,
          (3) failing-input search when (1) or (2) breaks.
"""
from __future__ import annotations

import fcntl
import hashlib
import json
import os
import re
import subprocess
import sys
import time

VERIF = os.path.dirname(os.path.dirname(os.path.abspath(__file__)))
LEAN_DIR = os.path.join(VERIF, "lean")
REPO = os.environ.get("VERIF_REPO", "/repo")
EXE = os.path.join(LEAN_DIR, ".lake", "build", "bin", "rzilverif")
ALLOWED_AXIOMS = {"propext", "Classical.choice", "Quot.sound"}
FORBIDDEN_RE = re.compile(
    r"\bsorry\b|\badmit\b|^\s*axiom\s|native_decide|bv_decide|implemented_by|\bunsafe\s|maxHeartbeats\s+0\b"
)


def seed() -> int:
    try:
        return int(os.environ.get("VERIF_SEED", "0"))
    except ValueError:
        return 0


class Lock:
    def __init__(self, name="build"):
        self.path = os.path.join(LEAN_DIR, f".{name}.lock")

    def __enter__(self):
        self.f = open(self.path, "w")
        fcntl.flock(self.f, fcntl.LOCK_EX)
        return self

    def __exit__(self, *a):
        fcntl.flock(self.f, fcntl.LOCK_UN)
        self.f.close()


# --------------------------------------------------------------------------------------
# Lean side
# --------------------------------------------------------------------------------------


def strip_lean_comments(text: str) -> str:
    """Remove `--` line comments and (nested) `/- -/` block comments."""
    out = []
    i, n, depth = 0, len(text), 0
    while i < n:
        if text.startswith("/-", i):
            depth += 1
            i += 2
            continue
        if depth and text.startswith("-/", i):
            depth -= 1
            i += 2
            continue
        if depth:
            if text[i] == "\n":
                out.append("\n")
            i += 1
            continue
        if text.startswith("--", i):
            while i < n and text[i] != "\n":
                i += 1
            continue
        out.append(text[i])
        i += 1
    return "".join(out)


def grep_forbidden() -> list[str]:
    hits = []
    for root, dirs, files in os.walk(LEAN_DIR):
        dirs[:] = [d for d in dirs if d != ".lake"]
        for fn in files:
            if not fn.endswith(".lean"):
                continue
            p = os.path.join(root, fn)
            txt = strip_lean_comments(open(p).read())
            for ln, line in enumerate(txt.split("\n"), 1):
                if FORBIDDEN_RE.search(line):
                    hits.append(f"{os.path.relpath(p, LEAN_DIR)}:{ln}: {line.strip()[:100]}")
    return hits


def lake(args: list[str], timeout=1800) -> tuple[int, str]:
    p = subprocess.run(
        ["lake"] + args, cwd=LEAN_DIR, stdout=subprocess.PIPE, stderr=subprocess.STDOUT, text=True, timeout=timeout
    )
    return p.returncode, p.stdout


AUDIT_TEMPLATE = """import {module}
import Lean
open Lean Elab Command
elab "#audit_props" : command => do
  let env ← getEnv
  let mods := env.header.moduleNames
  let mut out : Array String := #[]
  for (name, ci) in env.constants.toList do
    match ci with
    | .thmInfo _ =>
      match env.getModuleIdxFor? name with
      | some idx =>
        let m := mods[idx.toNat]!
        if m == `{module} && !name.isInternal then
          let axs ← liftCoreM (collectAxioms name)
          let axs := axs.qsort (fun a b => a.toString < b.toString)
          out := out.push s!"THEOREM {{name}} AXIOMS {{" ".intercalate (axs.toList.map toString)}}"
      | none => pure ()
    | _ => pure ()
  for l in out.qsort (· < ·) do
    IO.println l
#audit_props
"""

_AUTO_THM = re.compile(r"\.(eq_\d+|eq_def|congr_simp|sizeOf_spec|injEq|inj|noConfusion.*|match_\d+.*|proof_\d+)$")


class ProofStatus:
    def __init__(self):
        self.build_ok = True
        self.build_log = ""
        self.theorems: dict[str, list[str]] = {}  # name -> axioms
        self.bad_axioms: dict[str, list[str]] = {}
        self.forbidden: list[str] = []
        self.failed_decls: list[str] = []
        self.exe_ok = True

    @property
    def ok(self):
        return self.build_ok and self.exe_ok and not self.bad_axioms and not self.forbidden and len(self.theorems) > 0

    def summary(self) -> dict:
        return {
            "build_ok": self.build_ok,
            "exe_ok": self.exe_ok,
            "theorems": len(self.theorems),
            "bad_axioms": self.bad_axioms,
            "forbidden_hits": self.forbidden,
            "failed_decls": self.failed_decls,
        }


def prepare(prop: str, translate=None, extra_modules: list[str] = ()) -> ProofStatus:
    """Regenerate Gen files, build driver and the property's theorems, audit axioms."""
    st = ProofStatus()
    with Lock():
        if translate is not None:
            translate()
        rc, log = lake(["build", "rzilverif"])
        if rc != 0:
            st.exe_ok = False
            st.build_log = log
            return st
        mods = [f"RzilVerif.Props.{prop}"] + list(extra_modules)
        rc, log = lake(["build"] + mods)
        st.build_log = log
        if rc != 0:
            st.build_ok = False
            st.failed_decls = sorted(set(re.findall(r"error: ([^\n]*)", log)))[:20]
            return st
        st.forbidden = grep_forbidden()
        adir = os.path.join(LEAN_DIR, ".lake", "audit")
        os.makedirs(adir, exist_ok=True)
        for m in mods:
            ap = os.path.join(adir, f"Audit_{m.replace('.', '_')}.lean")
            src = AUDIT_TEMPLATE.format(module=m)
            with open(ap, "w") as f:
                f.write(src)
            rc, out = lake(["env", "lean", ap])
            if rc != 0:
                st.build_ok = False
                st.build_log += out
                return st
            for line in out.splitlines():
                mm = re.match(r"THEOREM (\S+) AXIOMS ?(.*)$", line)
                if not mm:
                    continue
                name, axs = mm.group(1), mm.group(2).split()
                if _AUTO_THM.search(name):
                    continue
                st.theorems[name] = axs
                bad = [a for a in axs if a not in ALLOWED_AXIOMS]
                if bad:
                    st.bad_axioms[name] = bad
    return st


def leanchecker(mods: list[str]) -> tuple[bool, str]:
    with Lock():
        rc, out = lake(["env", "leanchecker"] + mods, timeout=3000)
    return rc == 0, out[-2000:]


class Driver:
    """Batch access to the Lean model: send request lines, get reply lines."""

    def __init__(self):
        if not os.path.exists(EXE):
            raise RuntimeError("driver not built: " + EXE)

    def run(self, lines: list[str], timeout=3000) -> list[str]:
        data = "\n".join(lines) + "\n"
        p = subprocess.run([EXE], input=data, stdout=subprocess.PIPE, stderr=subprocess.PIPE, text=True, timeout=timeout)
        if p.returncode != 0:
            raise RuntimeError(f"driver failed rc={p.returncode}: {p.stderr[:500]}")
        out = p.stdout.split("\n")
        if out and out[-1] == "":
            out.pop()
        if len(out) != len(lines):
            raise RuntimeError(f"driver returned {len(out)} replies for {len(lines)} requests; stderr={p.stderr[:300]}")
        return out


# --------------------------------------------------------------------------------------
# S-expressions (Python side)
# --------------------------------------------------------------------------------------


def sx_str(s: str) -> str:
    return '"' + s.replace("\\", "\\\\").replace('"', '\\"').replace("\n", "\\n").replace("\t", "\\t").replace("\r", "\\r") + '"'


def sx(x) -> str:
    if isinstance(x, (list, tuple)):
        return "(" + " ".join(sx(y) for y in x) + ")"
    if isinstance(x, bool):
        return "1" if x else "0"
    if isinstance(x, int):
        return str(x)
    if isinstance(x, Q):
        return sx_str(x.s)
    if x is None:
        return "nil"
    s = str(x)
    if s == "" or re.search(r'[\s()"]', s):
        return sx_str(s)
    return s


class Q:
    """Force quoting of a string in sx()."""

    def __init__(self, s):
        self.s = s


def parse_sx(s: str):
    toks = re.findall(r'\(|\)|"(?:\\.|[^"\\])*"|[^\s()"]+', s)
    pos = 0

    def unq(t):
        body = t[1:-1]
        out, i = [], 0
        while i < len(body):
            c = body[i]
            if c == "\\" and i + 1 < len(body):
                d = body[i + 1]
                out.append({"n": "\n", "t": "\t", "r": "\r"}.get(d, d))
                i += 2
            else:
                out.append(c)
                i += 1
        return Q("".join(out))

    def rec():
        nonlocal pos
        t = toks[pos]
        pos += 1
        if t == "(":
            xs = []
            while toks[pos] != ")":
                xs.append(rec())
            pos += 1
            return xs
        if t.startswith('"'):
            return unq(t)
        return t

    r = rec()
    return r


# --------------------------------------------------------------------------------------
# Findings, replays, evidence
# --------------------------------------------------------------------------------------


def load_known() -> dict:
    p = os.path.join(VERIF, "known_findings.json")
    if not os.path.exists(p):
        return {"findings": [], "fixed": []}
    return json.load(open(p))


def known_for(prop: str) -> list[dict]:
    return [f for f in load_known().get("findings", []) if f.get("property") == prop]


def write_replay(prop: str, payload: dict) -> str:
    os.makedirs(os.path.join(VERIF, "replays"), exist_ok=True)
    blob = json.dumps(payload, sort_keys=True, default=str)
    h = hashlib.sha1(blob.encode()).hexdigest()[:12]
    rel = f"replays/{prop}-{h}.json"
    with open(os.path.join(VERIF, rel), "w") as f:
        json.dump(payload, f, indent=1, sort_keys=True, default=str)
    return rel


class Result:
    """Collects what a check run found and turns it into stdout lines, evidence and exit code."""

    def __init__(self, prop: str, tier: str):
        self.prop = prop
        self.tier = tier
        self.t0 = time.time()
        self.violations: list[tuple[str, bool]] = []  # (replay path, found_input)
        self.known_lines: list[str] = []
        self.coverage: dict = {}
        self.assumptions: list[str] = []
        self.proof: ProofStatus | None = None
        self.notes: list[str] = []

    def violation(self, payload: dict, found_input=True):
        payload = dict(payload)
        payload.setdefault("property", self.prop)
        payload.setdefault("seed", seed())
        payload.setdefault("tier", self.tier)
        payload["failing_input_found"] = found_input
        rel = write_replay(self.prop, payload)
        self.violations.append((rel, found_input))

    def known(self, what: str):
        line = f"KNOWN-FINDING: property={self.prop} {what}"
        if line not in self.known_lines:
            self.known_lines.append(line)

    def finish(self, trusted_base: list[str], checker_cmd: str) -> int:
        st = self.proof
        obligations = len(st.theorems) if st else 0
        discharged = 0
        if st and st.build_ok:
            discharged = len([t for t in st.theorems if t not in st.bad_axioms])
        cov = dict(self.coverage)
        cov.setdefault("obligations", max(obligations, 1))
        cov.setdefault("discharged", discharged)
        cov.setdefault("checker_cmd", checker_cmd)
        cov.setdefault("trusted_base", trusted_base)
        cov.setdefault("samples", [])
        if st:
            cov["proof_status"] = st.summary()
            cov["theorems"] = sorted(st.theorems.keys())
        cov["known_findings_reproduced"] = self.known_lines
        cov["notes"] = self.notes
        ev = {
            "property_id": self.prop,
            "tier": self.tier,
            "seed": seed(),
            "level": "proof",
            "coverage": cov,
            "assumptions": self.assumptions,
            "wall_s": round(time.time() - self.t0, 2),
            "violations": len(self.violations),
        }
        os.makedirs(os.path.join(VERIF, "evidence"), exist_ok=True)
        with open(os.path.join(VERIF, "evidence", f"{self.prop}.json"), "w") as f:
            json.dump(ev, f, indent=1, default=str)
        for l in self.known_lines:
            print(l)
        for rel, found in self.violations:
            print(f"VIOLATION property={self.prop} replay={rel}" + ("" if found else " no-failing-input-found"))
        sys.stdout.flush()
        return 1 if self.violations else 0


def proof_gate(res: Result, st: ProofStatus, search) -> bool:
    """If the proof side is broken, run `search()` (which must call res.violation for concrete
    failing inputs it finds and return the number found); if nothing was found report
    no-failing-input-found. Returns True when the proof side is fine."""
    res.proof = st
    if st.ok:
        return True
    found = search() if search else 0
    if not found:
        res.violation(
            {
                "what": "proof obligation no longer checks",
                "proof_status": st.summary(),
                "build_log_tail": st.build_log[-3000:],
            },
            found_input=False,
        )
    return False


# --------------------------------------------------------------------------------------
# Real code access
# --------------------------------------------------------------------------------------

_repo_ready = False


def use_repo():
    """Make the real code importable from REPO and chdir there (Conf.get_path uses cwd's git root)."""
    global _repo_ready
    if _repo_ready:
        return
    os.chdir(REPO)
    if REPO not in sys.path:
        sys.path.insert(0, REPO)
    # silence colour logging on stdout
    try:
        import rzilcompiler.Helper as H

        H.LOG_LEVEL = H.LogLevel.TODO
    except Exception:
        pass
    _repo_ready = True


def fnv_init():
    return 1469598103934665603


M61 = (1 << 61) - 1


def roll(h: int, v: int) -> int:
    return (h * 1000003 + v + 1) % M61
