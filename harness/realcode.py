"""Access to the real compiler (in-process), corpus loading, cached parallel parsing."""
from __future__ import annotations

import hashlib
import io
import os
import pickle
import random
import re
import sys
import contextlib

from common import REPO, VERIF, use_repo

CACHE = os.path.join(VERIF, ".cache", "parse")


def _h(*parts: str) -> str:
    m = hashlib.sha1()
    for p in parts:
        m.update(p.encode())
        m.update(b"\0")
    return m.hexdigest()


@contextlib.contextmanager
def quiet():
    """Silence the code's log()/tqdm noise (stdout of the check must stay clean)."""
    so, se = sys.stdout, sys.stderr
    sys.stdout, sys.stderr = io.StringIO(), io.StringIO()
    try:
        yield
    finally:
        sys.stdout, sys.stderr = so, se


_compilers = {}


def compiler(fmt="READ_STATEMENTS", fresh=False):
    use_repo()
    from rzilcompiler.ArchEnum import ArchEnum
    from rzilcompiler.Compiler import Compiler
    from rzilcompiler.Transformer.RZILTransformer import CodeFormat

    if fresh or fmt not in _compilers:
        with quiet():
            c = Compiler(ArchEnum.HEXAGON, CodeFormat[fmt])
        if fresh:
            return c
        _compilers[fmt] = c
    return _compilers[fmt]


def load_behaviours() -> dict[str, list[str]]:
    """The real loader on the bundled resolved shortcode."""
    use_repo()
    from rzilcompiler.Preprocessor.Hexagon.PreprocessorHexagon import PreprocessorHexagon
    from rzilcompiler.Configuration import Conf, InputFile

    PreprocessorHexagon.behaviors = dict()
    pp = PreprocessorHexagon(Conf.get_path(InputFile.HEXAGON_PP_SHORTCODE_H))
    with quiet():
        pp.load_insn_behavior()
    return dict(pp.behaviors)


def _src(rel):
    return open(os.path.join(REPO, rel)).read()


def parse_cached(behaviours: dict[str, list[str]]) -> dict:
    """Parse with the real `Parser.parse` (worker pool), caching per instruction by content hash of
    grammar + Parser.py + behaviour text (so any change to those re-parses)."""
    use_repo()
    import lark

    base = _h(_src("Resources/Hexagon/grammar.lark"), _src("rzilcompiler/Parser.py"), lark.__version__)
    os.makedirs(CACHE, exist_ok=True)
    out, todo = {}, {}
    for name, parts in behaviours.items():
        key = _h(base, name, *parts)
        p = os.path.join(CACHE, key + ".pkl")
        if os.path.exists(p):
            try:
                out[name] = pickle.load(open(p, "rb"))
                continue
            except Exception:
                pass
        todo[name] = (parts, p)
    if todo:
        from rzilcompiler.Parser import Parser

        with quiet():
            res = Parser.parse({n: v[0] for n, v in todo.items()})
        for name, pi in res.items():
            out[name] = pi
            try:
                pickle.dump(pi, open(todo[name][1], "wb"))
            except Exception:
                pass
    return out


FEATURES = {
    "for": r"for \(", "fcirc": r"fcirc_add", "ternary": r"\?", "store": r"mem_store", "load": r"mem_load",
    "jump": r"JUMP", "sextract": r"sextract64", "extract": r" extract64", "cancel": r"STORE_SLOT_CANCELLED",
    "clo": r"clo32|clo64", "revbit": r"revbit|fbrev", "conv_round": r"conv_round", "trap": r"trap\(", "npc": r"get_npc",
    "usr": r"set_usr_field", "float": r"FLOAT|DOUBLE", "inc": r"\+\+", "stmtexpr": r"\(\{", "if": r"if \(", "new": r"N\b|_NEW",
    "pred": r"P[0-3]\b|P[a-z]V", "alias": r"HEX_REG_ALIAS", "deposit": r"deposit", "compound_assign": r"[-+|&^]=",
    # operator x operand-width combinations that only a handful of behaviours have
    "uneg_narrow": r"[(?:=]\s*-\s*\(+\(?\(u?int(8|16)_t\)", "cmp_narrow": r"\(\(u?int(8|16)_t\)[^;]{0,60}\)\s*(<|>|==|<=|>=)\s*\(*\(\(u?int(8|16)_t\)",
    "sub_narrow": r"-\s*\(*\(\(u?int(8|16)_t\)", "if64": r"if \(\(?__\w+ [&^]", "sizeof": r"sizeof", "unsigned_cast": r"\(unsigned",
    "abs_pattern": r"< 0\) \? \(-", "mul64": r"\(\(int64_t\)[^;]{0,80}\*\s*\(*\(\(int64_t\)", "shift_var": r">>\s*\(*[A-Z][a-z]V|<<\s*\(*[A-Z][a-z]V",
}


def sample_names(beh: dict[str, list[str]], seed: int, per_group=2, per_feature=2) -> list[str]:
    """Seeded stratified sample: every instruction-class prefix and every feature of FEATURES."""
    rng = random.Random(seed)
    names = sorted(n for n in beh if not n.startswith("V6_"))
    groups: dict[str, list[str]] = {}
    for n in names:
        groups.setdefault(n.split("_")[0], []).append(n)
    pick = set()
    for g, ns in sorted(groups.items()):
        pick.update(rng.sample(ns, min(per_group, len(ns))))
    for f, rx in sorted(FEATURES.items()):
        ns = [n for n in names if re.search(rx, " ".join(beh[n]))]
        if ns:
            pick.update(rng.sample(ns, min(per_feature, len(ns))))
    comp = [n for n in names if len(beh[n]) > 1]
    pick.update(rng.sample(comp, min(4, len(comp))))
    for must in ("A4_tlbmatch", "L2_loadrb_pci", "A2_addi", "J2_jump", "S2_storerd_io", "M4_pmpyw"):
        if must in beh:
            pick.add(must)
    # every rare construct: each token (identifier, compound operator) that at most 8 behaviours use is covered by at
    # least one sampled behaviour (greedy cover, seeded choice among the candidates)
    toks = {n: set(re.findall(r"[A-Za-z_]\w*|<<=|>>=|[-+*&|^]=|\+\+|--", " ".join(beh[n]))) for n in names}
    cnt: dict[str, int] = {}
    for ts in toks.values():
        for t in ts:
            cnt[t] = cnt.get(t, 0) + 1
    left = {t for t, k in cnt.items() if k <= 8}
    for n in pick:
        left -= toks[n]
    order = list(names)
    rng.shuffle(order)
    while left:
        best = max(order, key=lambda n: len(toks[n] & left))
        if not toks[best] & left:
            break
        pick.add(best)
        left -= toks[best]
    v6 = sorted(n for n in beh if n.startswith("V6_"))
    pick.update(rng.sample(v6, min(3, len(v6))))
    return sorted(pick)


def sub_routine_defs(c) -> list[tuple[str, str, list[tuple[str, str]], str]]:
    """(name, ret-sort sexp, [(param, sort sexp)], DEF text) of every registered sub-routine, in order."""
    from rzilcompiler.Transformer.Hybrids.SubRoutine import SubRoutineInitType
    from rzilcompiler.Transformer.ValueType import VTGroup

    def sort(vt):
        if vt.group & (VTGroup.EXTERNAL | VTGroup.VOID):
            return "ext"
        if vt.group & (VTGroup.FLOAT | VTGroup.DOUBLE):
            return ["float", vt.bit_width]
        return ["bv", vt.bit_width]

    out = []
    for name, sr in c.sub_routines.items():
        ret = "void" if sr.value_type.group & VTGroup.VOID else sort(sr.value_type)
        params = [(p.get_name(), sort(p.value_type)) for p in sr.ops]
        out.append((name, ret, params, sr.il_init(SubRoutineInitType.DEF)))
    return out


def transform_all(c, parsed: dict) -> dict:
    """Run the real `transform_insn` on every parsed instruction. Returns name -> dict with per-part
    text/meta or the exception class name."""
    out = {}
    for name, pi in parsed.items():
        if pi.exception is not None:
            out[name] = {"status": "parse-reject", "exc": pi.exception.name}
            continue
        try:
            with quiet():
                ri = c.transform_insn(name, pi)
            out[name] = {
                "status": "ok", "rzil": list(ri.rzil), "meta": [list(m) for m in ri.meta],
                "needs_hi": [bool(x) for x in ri.needs_hi], "needs_pkt": [bool(x) for x in ri.needs_pkt],
                "getter": list(ri.getter_rzil["name"]), "getter_decl": list(ri.getter_rzil["fcn_decl"]),
                "insn": ri.name, "behaviors": list(pi.behaviors),
            }
        except Exception as e:
            inner = getattr(e, "orig_exc", e)
            out[name] = {"status": "transform-reject", "exc": type(inner).__name__, "msg": str(inner)[:200]}
    return out


# ---- generated programs: parallel parsing with the parser the real Compiler builds ---------------

_worker_parser = None


def _init_worker(repo):
    global _worker_parser
    os.chdir(repo)
    if repo not in sys.path:
        sys.path.insert(0, repo)
    import types
    from rzilcompiler.Compiler import Compiler

    d = types.SimpleNamespace()
    Compiler.set_lark_parser(d)  # the real construction (grammar path, start rule, earley)
    _worker_parser = d.parser


def _parse_one(src):
    try:
        return ("ok", _worker_parser.parse(src))
    except Exception as e:
        return ("exc", type(e).__name__)


_pool = None


def parse_programs(srcs: list[str], procs=16):
    """Parse with Lark parsers constructed by the real `Compiler.set_lark_parser`, in parallel."""
    global _pool
    use_repo()
    if len(srcs) <= 3:
        c = compiler()
        out = []
        for s in srcs:
            try:
                out.append(("ok", c.parser.parse(s)))
            except Exception as e:
                out.append(("exc", type(e).__name__))
        return out
    import multiprocessing as mp

    if _pool is None:
        _pool = mp.get_context("fork").Pool(procs, initializer=_init_worker, initargs=(REPO,))
    return _pool.map(_parse_one, srcs, chunksize=max(1, len(srcs) // (procs * 4)))


def close_pool():
    global _pool
    if _pool is not None:
        _pool.terminate()
        _pool = None


def transform_tree(c, tree):
    """What `compile_c_stmt` does after parsing (transform, then reset); on an exception the harness
    resets explicitly so that runs stay independent (history effects are C14's subject, not this one's)."""
    try:
        with quiet():
            out = c.transformer.transform(tree)
            meta = list(c.transformer.ext.get_meta())
            c.transformer.reset()
        return ("ok", out, meta)
    except Exception as e:
        with quiet():
            c.transformer.reset()
        inner = getattr(e, "orig_exc", e)
        return ("exc", type(inner).__name__, str(inner)[:160])
