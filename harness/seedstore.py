#!/usr/bin/env python3
"""Store a confirmed seeded change under /verif/seeded/<Cxx>-<i>/ (patch.diff, demo.py, notes.md, meta.json)."""
import json, os, re, shutil, sys
prop, i, verify_line, detected = sys.argv[1], sys.argv[2], sys.argv[3], sys.argv[4]
src = f"/tmp/seed/{prop}"
dst = f"/verif/seeded/{prop}-{i}"
os.makedirs(dst, exist_ok=True)
shutil.copy(f"{src}/patch{i}.diff", f"{dst}/patch.diff")
shutil.copy(f"{src}/demo{i}.py", f"{dst}/demo.py")
notes = open(f"{src}/NOTES{i}.md" if os.path.exists(f"{src}/NOTES{i}.md") else f"{src}/notes{i}.md").read()
open(f"{dst}/notes.md", "w").write(notes)
m = re.search(r"demo_clean_rc=(\d+) demo_patched_rc=(\d+) tests='([^']*)'", verify_line)
meta = {
    "property": prop,
    "origin": "written by a fresh sub-agent that was given only the property text and its own scratch worktree",
    "needs_to_manifest": " ".join(notes.split())[:900],
    "confirmed_by_me": {
        "how": "harness/seedverify.sh in a scratch git worktree of /repo (removed afterwards): demo on the clean tree, demo with the patch applied, pinned test suite with the patch applied",
        "demo_clean_exit": int(m.group(1)), "demo_patched_exit": int(m.group(2)), "test_suite_with_patch": m.group(3),
    },
    "detected_by": detected,
}
json.dump(meta, open(f"{dst}/meta.json", "w"), indent=1)
print(dst)
