"""C19 — loading and splitting resolved shortcode loses nothing.

Theorems: lean/RzilVerif/Props/C19.lean (splitResolved_lossless for ALL names/bodies, characterisation of
rejection, splitCompounds_lossless_partial + the refuted full statement, load_all_or_raise).
Tie: correspondence of the Lean functions with the real static methods / loader (Python `re`) on all bundled
lines and on generated adversarial lines; plus the property's own predicate (reconstruct NAME/BODY, brace
balance, statements preserved) on the real results.
"""
from __future__ import annotations

import os
import random
import shutil
import tempfile

from common import *  # noqa

PROP = "C19"
M = "__COMPOUND_PART1__"
TB = [
    "Lean 4.33 kernel; axioms propext, Classical.choice, Quot.sound (audited per theorem)",
    "model Model/PPStrings.lean: direct List Char functions computing what Python's re computes for the two patterns (tied by differential execution)",
    "harness: generators, file redirection of Conf.get_path for the loader, diffing",
]
ALPHA = ["RdV", "RsV", "=", "+", ";", " ", "(", ")", "{", "}", ",", ", ", "insn(", "fn(", "0x1f", "if", M, "a", "_", "\t", "P0", ":", "?", ")\n", "\n", "){", "})", "insn(x, "]


def real_split_resolved(line):
    from rzilcompiler.Preprocessor.Hexagon.PreprocessorHexagon import PreprocessorHexagon as P

    try:
        r = P.split_resolved_shortcode(line)
        return ("ok", r[0], r[1])
    except ValueError:
        return ("raise", "ValueError")
    except Exception as e:
        return ("raise", type(e).__name__)


def real_split_compounds(beh):
    from rzilcompiler.Preprocessor.Hexagon.PreprocessorHexagon import PreprocessorHexagon as P

    try:
        r = P.split_compounds(beh)
        return ("ok", r[0], r[1])
    except Exception as e:
        return ("raise", type(e).__name__)


def model_pair(rep: str):
    r = parse_sx(rep)
    if r == "none":
        return ("raise",)
    return ("ok", r[0].s, r[1].s)


def balanced(s: str) -> bool:
    d = 0
    for c in s:
        if c == "{":
            d += 1
        elif c == "}":
            d -= 1
            if d < 0:
                return False
    return d == 0


def _canon(s: str) -> str:
    return "".join(c for c in s if c not in "{} \t\n")


def compound_lossless(beh: str, p1: str, p2: str) -> bool:
    """The property's own predicate: both parts brace-balanced (when the input is) and their text is, in
    order, the original body with only the part markers removed."""
    if balanced(beh.replace(M, "")) and not (balanced(p1) and balanced(p2)):
        return False
    return _canon(p1) + _canon(p2) == _canon(beh.replace(M, ""))


def in_prefix_class(beh: str) -> bool:
    i = beh.find(M)
    return i > 0 and beh.startswith("{") and beh[1:i].strip() != ""


def gen_body(rng, n=None):
    n = n or rng.randint(1, 10)
    return "".join(rng.choice(ALPHA[:22]) for _ in range(n)).replace("\n", "")


def gen_name(rng):
    return "".join(rng.choice("ABCxyz0123456789_") for _ in range(rng.randint(1, 10)))


def real_load(lines: list[str], tmpdir: str, clear=True):
    """Run the real load_insn_behavior on a file with these lines (Conf.get_path redirected)."""
    import rzilcompiler.Preprocessor.Hexagon.PreprocessorHexagon as PH
    from rzilcompiler.Configuration import InputFile

    path = os.path.join(tmpdir, "resolved.h")
    with open(path, "w", newline="") as f:
        f.write("".join(lines))
    orig = PH.Conf.get_path

    def fake(file, arch_name=""):
        if file == InputFile.HEXAGON_PP_SHORTCODE_RESOLVED_H:
            from pathlib import Path

            return Path(path)
        return orig(file, arch_name)

    PH.Conf.get_path = staticmethod(fake)
    try:
        if clear:
            PH.PreprocessorHexagon.behaviors = dict()
        pp = PH.PreprocessorHexagon(None)
        try:
            import realcode

            with realcode.quiet():
                pp.load_insn_behavior()
            return ("ok", dict(pp.behaviors))
        except Exception as e:
            return ("raise", type(e).__name__)
    finally:
        PH.Conf.get_path = orig


def run(tier: str, replay=None) -> int:
    res = Result(PROP, tier)
    st = prepare(PROP)
    res.proof = st
    use_repo()
    rng = random.Random(seed() * 31337 + 19)
    drv = Driver()
    viol, known_hits, repaired = [], 0, 0
    evals = 0
    distinct = set()
    samples = []

    # ---- 1. bundled file: every line ---------------------------------------------------------
    path = os.path.join(REPO, "Resources/Hexagon/Preprocessor/shortcode_resolved.h")
    with open(path) as f:
        file_lines = f.readlines()
    body_lines = [l for l in file_lines if l and l[0] != "#"]
    reqs = [sx(["split-resolved", Q(l)]) for l in body_lines]
    reps = drv.run(reqs)
    compounds = []
    for l, rp in zip(body_lines, reps):
        evals += 1
        real, model = real_split_resolved(l), model_pair(rp)
        distinct.add(l)
        if (real[0], real[2:] if real[0] == "ok" else ()) != (model[0], model[2:] if model[0] == "ok" else ()) or (real[0] == "ok" and real[1:] != model[1:]):
            viol.append({"what": f"split_resolved_shortcode: real {real} vs model {model}", "line": l})
        elif real[0] != "ok":
            viol.append({"what": "bundled line rejected", "line": l})
        else:
            if f"insn({real[1]}, {real[2]})" != l.rstrip("\n"):
                viol.append({"what": "NAME/BODY do not reconstruct the line", "line": l, "real": real})
            if M in real[2]:
                compounds.append((real[1], real[2]))
    creps = drv.run([sx(["split-compounds", Q(b)]) for _, b in compounds]) if compounds else []
    for (n, b), rp in zip(compounds, creps):
        evals += 1
        real, model = real_split_compounds(b), model_pair(rp)
        if real[:1] != model[:1] or (real[0] == "ok" and real[1:] != model[1:]):
            viol.append({"what": f"split_compounds: real {real} vs model {model}", "behaviour": b})
        elif real[0] == "ok":
            p1, p2 = real[1], real[2]
            # lossless: the two parts are balanced blocks whose texts are the original with markers removed
            inner = b[1:-1] if b.startswith("{") and b.endswith("}") else None
            want = None
            if inner is not None and inner.count(M) == 2:
                pre, mid, post = inner.split(M)
                want = (pre.strip() == "", mid, "{" + post + "}")
            if not (balanced(p1) and balanced(p2)) or want is None or not want[0] or (p1, p2) != want[1:]:
                viol.append({"what": "bundled compound not split losslessly", "insn": n, "parts": [p1, p2]})
    # whole-file load
    tmpdir = tempfile.mkdtemp(prefix="verif_c19_")
    try:
        rl = real_load(file_lines, tmpdir)
        ml = parse_sx(drv.run([sx(["load-behaviours"] + [Q(l) for l in file_lines])])[0])
        evals += 1
        if rl[0] == "ok" and ml != "raise":
            md = {e[0].s: [p.s for p in e[1:]] for e in ml}
            if rl[1] != md:
                bad = [k for k in set(rl[1]) | set(md) if rl[1].get(k) != md.get(k)][:3]
                viol.append({"what": f"load_insn_behavior differs from the model on {bad}", "file": "bundled shortcode_resolved.h"})
            if len(md) != len(body_lines):
                viol.append({"what": "bundled names not one-to-one with lines", "entries": len(md), "lines": len(body_lines)})
        else:
            viol.append({"what": f"load of the bundled file: real {rl[0]} model {'raise' if ml == 'raise' else 'ok'}"})
        n_bundled = evals

        # ---- 2. generated lines ------------------------------------------------------------------
        n_gen = 5000 if tier == "quick" else 200000
        gl = []
        for i in range(n_gen):
            k = rng.random()
            if k < 0.45:  # structured: must be recovered exactly
                name, body = gen_name(rng), gen_body(rng) or "x"
                nl = rng.choice(["", "\n"])
                gl.append(("structured", f"insn({name}, {body}){nl}", name, body))
            elif k < 0.6:  # structured with prefix / trailing whitespace
                name, body = gen_name(rng), gen_body(rng) or "x"
                gl.append(("decorated", rng.choice(["", " ", "x", "insn(", "(", "insn(a, b"]) + f"insn({name}, {body})" + rng.choice(["", "\n", " ", " \n", ";", "\n\n"]), name, body))
            else:  # arbitrary token soup
                gl.append(("soup", "".join(rng.choice(ALPHA) for _ in range(rng.randint(0, 9))), None, None))
        reps = drv.run([sx(["split-resolved", Q(g[1])]) for g in gl])
        for g, rp in zip(gl, reps):
            evals += 1
            real, model = real_split_resolved(g[1]), model_pair(rp)
            distinct.add(g[1])
            if real[:1] != model[:1] or (real[0] == "ok" and real[1:] != model[1:]):
                viol.append({"what": f"split_resolved_shortcode: real {real} vs model {model}", "line": g[1]})
            elif g[0] == "structured" and real != ("ok", g[2], g[3]):
                viol.append({"what": f"well-formed line not recovered exactly: got {real}", "line": g[1], "name": g[2], "body": g[3]})
        if len(samples) < 3:
            samples += [{"line": g[1], "kind": g[0]} for g in gl[:3]]
        # compounds
        gc = []
        for i in range(n_gen // 2):
            k = rng.random()
            inner = gen_body(rng, rng.randint(1, 5)).replace(M, "") or "a;"
            rest = gen_body(rng, rng.randint(0, 5)).replace(M, "")
            if k < 0.4:
                gc.append(("structured", "{" + M + "{" + inner + "}" + M + rest + "}", "{" + inner + "}", "{" + rest + "}"))
            elif k < 0.6:
                pre = gen_body(rng, rng.randint(1, 3)).replace(M, "")
                gc.append(("prefix", "{" + pre + M + "{" + inner + "}" + M + rest + "}", pre, None))
            else:
                gc.append(("soup", "".join(rng.choice(ALPHA + [M, "{" + M, M + "}"]) for _ in range(rng.randint(0, 8))), None, None))
        reps = drv.run([sx(["split-compounds", Q(g[1])]) for g in gc])
        for g, rp in zip(gc, reps):
            evals += 1
            real, model = real_split_compounds(g[1]), model_pair(rp)
            distinct.add(g[1])
            if real[:1] != model[:1] or (real[0] == "ok" and real[1:] != model[1:]):
                if in_prefix_class(g[1]) and real[0] == "ok" and compound_lossless(g[1], real[1], real[2]):
                    repaired += 1   # the code no longer drops the prefix and splits losslessly: the listed finding is repaired
                else:
                    viol.append({"what": f"split_compounds: real {real} vs model {model}" + ("; the real result is not a lossless split" if real[0] == "ok" else ""), "behaviour": g[1]})
            elif g[0] == "structured" and real != ("ok", g[2], g[3]):
                viol.append({"what": f"compound with empty prefix not split losslessly: got {real}", "behaviour": g[1]})
            elif g[0] == "prefix" and real[0] == "ok" and g[2].strip() and g[2] not in real[1] + real[2]:
                known_hits += 1   # text before the first marker is lost (listed finding)
        # loader with history: a name that is plain in file 1 and compound in file 2 (and vice versa)
        for rd in range(6 if tier == "quick" else 40):
            names = [gen_name(rng) + str(i) for i in range(rng.randint(2, 6))]

            def mk(n, comp):
                if comp:
                    return f"insn({n}, {{{M}{{ P0 = {rng.randint(0, 9)}; }}{M} RdV = {rng.randint(0, 9)};}})\n"
                return f"insn({n}, {{ RdV = {rng.randint(0, 99)}; }})\n"

            f1 = ["#line 1\n"] + [mk(n, rng.random() < 0.4) for n in names]
            f2 = [mk(n, rng.random() < 0.6) for n in names] + ([rng.choice(["garbage\n", "insn(x,y)\n"])] if rng.random() < 0.3 else [])
            real_load(f1, tmpdir, clear=True)
            r2 = real_load(f2, tmpdir, clear=False)
            m2 = parse_sx(drv.run([sx(["load-behaviours"] + [Q(l) for l in f2])])[0])
            evals += 1
            if (r2[0] == "ok") != (m2 != "raise"):
                viol.append({"what": f"second load: real {r2[0]} vs model {'raise' if m2 == 'raise' else 'ok'} (malformed lines must be rejected, not skipped)", "file1": f1, "file2": f2})
            elif r2[0] == "ok":
                md = {e[0].s: [p.s for p in e[1:]] for e in m2}
                bad = [k for k in md if r2[1].get(k) != md[k]]
                if bad:
                    viol.append({"what": f"after loading file1 then file2 the behaviours of {bad[:3]} are not those of file2's lines", "file1": f1, "file2": f2,
                                 "real": {k: r2[1].get(k) for k in bad[:3]}, "expected": {k: md[k] for k in bad[:3]}})
        # ---- 3. the loader on generated FILES (every line kind the split functions see above, through load_insn_behavior) ----
        file_stats = {"files": 0, "loaded_by_both": 0, "rejected_by_both": 0}

        def load_tie(lines, label):
            nonlocal evals
            file_stats["files"] += 1
            r = real_load(lines, tmpdir, clear=True)
            m = parse_sx(drv.run([sx(["load-behaviours"] + [Q(l) for l in lines])])[0])
            evals += 1
            if (r[0] == "ok") != (m != "raise"):
                viol.append({"what": f"{label}: real load {r[0]} vs model {'raise' if m == 'raise' else 'ok'} (malformed lines must be rejected, not skipped)",
                             "lines": len(lines), "first_lines": lines[:3], "last_lines": lines[-2:]})
            elif r[0] != "ok":
                file_stats["rejected_by_both"] += 1
            elif r[0] == "ok":
                file_stats["loaded_by_both"] += 1
                md = {e[0].s: [p.s for p in e[1:]] for e in m}
                if r[1] != md:
                    bad = sorted(k for k in set(r[1]) | set(md) if r[1].get(k) != md.get(k))
                    viol.append({"what": f"{label}: load_insn_behavior differs from the model on {len(bad)} of {len(md)} names, e.g. {bad[:3]}",
                                 "real": {k: r[1].get(k) for k in bad[:3]}, "expected": {k: md.get(k) for k in bad[:3]},
                                 "lines": len(lines), "example_lines": [l for l in lines if any(f"insn({k}," in l for k in bad[:3])][:3]})

        def gen_file(n, malformed_tail):
            out = []
            for i in range(n):
                k = rng.random()
                name = gen_name(rng) + f"_{i}"
                if k < 0.5:
                    out.append(f"insn({name}, {gen_body(rng).replace(M, '') or 'x'})\n")
                elif k < 0.85:  # compounds: white space / nothing between the brace and the first marker, around the markers, at the end
                    ws = rng.choice(["", "", " ", "\t", "  ", " \t "])
                    ws2 = rng.choice(["", " ", "\t"]) if rng.random() < 0.02 else ""   # (white space there makes the line malformed)
                    inner = gen_body(rng, rng.randint(1, 5)).replace(M, "") or "a;"
                    rest = gen_body(rng, rng.randint(0, 5)).replace(M, "")
                    out.append(f"insn({name}, {{{ws}{M}{ws2}{{{inner}}}{ws2}{M}{rest}}})\n")
                elif k < 0.95:
                    out.append(rng.choice(["#line 3\n", "#\n", "# insn(a, b)\n"]))
                else:
                    out.append(f"insn({name}, {{ RdV = fn(a, (b)); }})\n")
            if malformed_tail:
                out.append(rng.choice(["garbage\n", "insn(x,y)\n", "insn(x y)\n"]))
            return out

        for rd in range(12 if tier == "quick" else 120):
            load_tie(gen_file(rng.randint(1, 120), rd % 3 == 0), f"generated file {rd}")
        # files larger than the bundled one (979 KB): 1.3 MB of short lines, 2.5 MB with one very long body first; the last
        # line of every second one is malformed
        big = [f"insn(N{i}_{gen_name(rng)}, {{ RdV = {i}; {gen_body(rng, 12).replace(M, '')} }})\n" for i in range(32000)]
        while sum(map(len, big)) < 1_300_000:
            big += [f"insn(M{len(big)}_{i}, {{ RdV = {i}; }})\n" for i in range(2000)]
        load_tie(big, "generated file of 1.3 MB")
        load_tie(big + ["garbage\n"], "generated file of 1.3 MB with a malformed last line")
        long_first = [f"insn(LONG, {{ {'RdV = RsV + 1; ' * 90000}}})\n"] + big[:20000] + ["insn(x,y)\n"]
        load_tie(long_first, "generated file of 2.5 MB whose first body is 1.3 MB long, malformed last line")
    finally:
        shutil.rmtree(tmpdir, ignore_errors=True)

    # known finding: witness replay
    for k in known_for(PROP):
        w = k.get("witness")
        r = real_split_compounds(w)
        if r[0] == "ok" and "a;" not in r[1] + r[2]:
            res.known(f"{k['id']}: {k['what']} [witness: split_compounds({w!r}) -> {r[1:]}] ({k['site']})")
        else:
            res.notes.append(f"known finding {k['id']} no longer reproduces")
            if known_hits:
                pass

    def search():
        for v in viol[:3]:
            res.violation(v)
        return len(viol)

    if proof_gate(res, st, search):
        for v in viol[:3]:
            res.violation(v)
    res.coverage.update({
        "evaluations": evals, "distinct_nontrivial": len(distinct),
        "rule": "every bundled line and compound (exhaustive) + generated lines: structured (must be recovered exactly), decorated, token soup; compounds with empty/non-empty prefix and soup; two-step loader histories; the loader on generated files (plain lines, compounds with white space around the markers, comment lines, malformed tails) and on files larger than 1 MB. distinct = distinct input strings",
        "exhaustive": True, "bundled_evaluations": n_bundled, "bundled_lines": len(body_lines), "bundled_compounds": len(compounds),
        "prefix_loss_cases_seen": known_hits, "prefix_cases_split_losslessly_by_the_code": repaired, "violations_total": len(viol), "samples": samples, "loader_files": file_stats,
    })
    return res.finish(TB, "cd lean && lake build RzilVerif.Props.C19")
