"""C13 — reported instruction attributes are exactly those of the instruction itself.

Theorems (lean/RzilVerif/Props/C13.lean): table facts about the REGENERATED callback/flag tables (decide),
flags_history_free, meta_of_tree_partial (for all trees, when no earlier part wrote an explicit predicate),
the refuted full statement (known finding: class-level preds_written), the repaired variant.
Tie: translator (Gen/CallbacksGen.lean) + correspondence: the real get_meta() after real transforms under
random compilation histories (several instances, failing compilations interleaved) equals the Lean
`metaAfter prior tree` on the exported Lark tree; the specification `attrsOfTree` is compared as well.
"""
from __future__ import annotations

import random

from common import *  # noqa
import gen
import realcode as rc
import translate

PROP = "C13"
TB = [
    "Lean 4.33 kernel; axioms propext, Classical.choice, Quot.sound (audited per theorem)",
    "translator harness/translate.py:gen_callbacks (Python ast -> Gen/CallbacksGen.lean) — the theorems are re-checked against the tables it regenerates each run",
    "specification attrsOfTree (Model/Meta.lean): attributes implied by the Lark tree of the part",
    "harness: Lark tree export, history generation, diffing",
]


def tree_sx(t):
    from lark import Tree, Token

    if isinstance(t, Tree):
        return ["n", Q(str(t.data))] + [tree_sx(c) for c in t.children]
    if isinstance(t, Token):
        return ["t", Q(str(t.type)), Q(str(t))]
    return "nil"


ATTR_PROGS = [
    "{ P0 = RsV; }", "{ PdV = RsV; }", "{ P3 = 1; P1 = 2; }", "{ if (PuV) { RdV = mem_load_s32(RsV); } }",
    "{ EA = RsV; mem_store_u32(EA, RtV); RdV = ((int32_t)mem_load_s32(EA)); }", "{ JUMP(riV); }", "{ RdV = NsN; }",
    "{ RdV = P0_NEW; }", "{ RdV = HEX_REG_ALIAS_LR_NEW; }", "{ if (PtN) { JUMP(RsV); } else { P1 = RtV; } }",
    "{ RdV = RsV + 1; }", "{ RdV = (1 ? RsV : ((int32_t)mem_load_s32(RtV))); }", "{ PdV = RsV; P0 = PdV; }", "{ RxV = P1; }",
    "{ P2 = RsV; }", "{ EA = RsV; if (RtV) { mem_store_u8(EA, RuV); } }",
    # destinations that are NOT predicate registers although their names start like one; other alias / control destinations
    "{ HEX_REG_ALIAS_PC = RsV; }", "{ HEX_REG_ALIAS_PKTCNTLO = RsV; }", "{ HEX_REG_ALIAS_PKTCNTHI += 1; }", "{ HEX_REG_ALIAS_PKTCOUNT = RssV; }",
    "{ HEX_REG_ALIAS_UPCYCLELO = RsV; }", "{ HEX_REG_ALIAS_SP = RsV; HEX_REG_ALIAS_LR = RtV; }", "{ CdV = RsV; }", "{ CddV = RssV; }",
    "{ int32_t p0 = RsV; int32_t P = 1; RdV = p0 + P; }", "{ int32_t Pnew = RsV; Pnew = Pnew + 1; RdV = Pnew; }",
    # what a called sub-routine's body contains is not an attribute of the caller
    "{ RdV = clo32(RsV); }", "{ RdV = clz32(RsV) + conv_round(RtV, 2); }", "{ RdV = fbrev(RsV); }", "{ RddV = clz64(RssV); }",
    "{ set_usr_field(bundle, HEX_REG_FIELD_USR_OVF, 1); }", "{ RdV = get_usr_field(bundle, HEX_REG_FIELD_USR_LPCFG); }",
    # explicit predicates in every position
    "{ P0 = P1; }", "{ P3 &= RsV; }", "{ RdV = (P2 ? RsV : RtV); }", "{ if (P1) { P0 = 1; } else { P2 = 0; } }", "{ PxV = PxV | 1; }",
]
FAILING = ["{ RdV = ; }", "{ if (P0_NEW) { RdV = ((int32_t)mem_load_s32(RsV)) + unknown_fn(RtV); } }", "{ P0 = 1; RdV = foo(RsV); }",
           "{ EA = RsV; mem_store_u32(EA, RtV); while (RsV) { RdV = 1; } }", "{ JUMP(RsV); RdV = RsV->x; }"]


def run(tier: str, replay=None) -> int:
    res = Result(PROP, tier)
    st = prepare(PROP, translate=translate.run_all)
    res.proof = st
    use_repo()
    from rzilcompiler.HexagonExtensions import HexagonTransformerExtension as HX
    from rzilcompiler.Parser import ParsedInsn
    from rzilcompiler.Compiler import RZILInstruction

    rng = random.Random(seed() * 6007 + 13)
    g = gen.Gen(rng, gen.Cfg(hybrids=0.05, mem=0.2, jumps=0.12, new_regs=0.12, explicit_regs=0.15, max_stmts=3, max_depth=2))
    n_hist = 6 if tier == "quick" else 40
    hist_len = 14 if tier == "quick" else 30
    # programs: attribute-relevant fixed set + generated + failing ones
    progs = list(ATTR_PROGS)
    for _ in range(40 if tier == "quick" else 300):
        progs.append(gen.prog_src(g.program()))
    if replay:
        rp = json.load(open(replay))
        if "history" in rp:
            n_hist, forced = 1, rp["history"]
    allsrc = sorted(set(progs + FAILING))
    parsed = dict(zip(allsrc, rc.parse_programs(allsrc)))
    rc.close_pool()
    # corpus parts (sample / all): through transform_insn
    beh = rc.load_behaviours()
    names = sorted(beh) if tier == "thorough" else rc.sample_names(beh, seed(), per_group=1, per_feature=1)
    pinsn = rc.parse_cached({n: beh[n] for n in names})
    corpus_ok = [n for n in names if pinsn[n].exception is None]

    compilers = [rc.compiler("READ_STATEMENTS"), rc.compiler("EXEC_CLASSES")]
    drv = Driver()
    reqs, meta_real, info = [], [], []
    evals = 0

    SIX = ["is_conditional", "uses_new", "writes_mem", "reads_mem", "branches", "writes_predicate"]

    def entry_flags(c):
        return [a for a in SIX if getattr(c.transformer.ext, a)]

    def record(tree, real_meta, prior, what, on=(), reset=True):
        what = dict(what, entry_flags=list(on), reset_at_entry=reset)
        reqs.append(sx(["meta", ["preds"] + list(prior), ["on"] + list(on), reset, tree_sx(tree)]))
        meta_real.append(list(real_meta))
        info.append(what)

    histories = []
    for h in range(n_hist):
        hist = []
        for step in range(hist_len):
            k = rng.random()
            ci = rng.randrange(len(compilers))
            if k < 0.55:
                hist.append(("cstmt", ci, rng.choice(progs)))
            elif k < 0.7:
                hist.append(("cstmt", ci, rng.choice(FAILING)))
            elif k < 0.95 and corpus_ok:
                hist.append(("insn", ci, rng.choice(corpus_ok)))
            else:
                hist.append(("insn-prog", ci, rng.choice(ATTR_PROGS)))
        if replay and "history" in json.load(open(replay)):
            hist = [tuple(x) for x in forced]
        histories.append(hist)
        for (kind, ci, arg) in hist:
            c = compilers[ci]
            prior = list(c.transformer.ext.preds_written)
            if kind == "cstmt":
                pr = parsed.get(arg) or rc.parse_programs([arg])[0]
                if pr[0] != "ok":
                    try:
                        with rc.quiet():
                            c.compile_c_stmt(arg)
                    except Exception:
                        pass
                    continue
                # the real entry point, then the attributes it leaves behind are not observable: compile_c_stmt
                # resets; so replicate its body to read get_meta() before the reset (as transform_insn does)
                on = entry_flags(c)
                try:
                    with rc.quiet():
                        c.transformer.transform(pr[1])
                        m = c.transformer.ext.get_meta()
                        c.transformer.reset()
                    record(pr[1], m, prior, {"history": h, "call": kind, "src": arg}, on=on, reset=False)
                except Exception:
                    pass  # failing transform: like compile_c_stmt, no reset
            else:
                if kind == "insn":
                    pi, nm = pinsn[arg], arg
                else:
                    pr = parsed[arg]
                    pi, nm = ParsedInsn("GEN_insn", [pr[1]], [arg]), "GEN_insn"
                try:
                    with rc.quiet():
                        ri = c.transform_insn(nm, pi)
                except Exception:
                    continue
                # per part, the prior preds are those before that part: recompute by replaying the parts' own writes
                pp = list(prior)
                for tree, m in zip(pi.asts, ri.meta):
                    if nm in c.noped_insns:
                        if m != ["HEX_IL_INSN_ATTR_NONE"]:
                            res.violation({"what": f"no-op listed instruction {nm} reports {m}"})
                        continue
                    record(tree, m, pp, {"history": h, "call": kind, "insn": nm})
                    for s_ in m:
                        if s_.startswith("HEX_IL_INSN_ATTR_WRITE_P"):
                            n_ = int(s_[-1])
                            if n_ not in pp:
                                pp.append(n_)
        evals += len(hist)
    # every spelling that names the same instruction (dep_X, IMPORTED_X, X_undocumented, undocumented_X) reports X's
    # attributes - NONE for the instructions of noped_insns.json, the attributes of the text for the others
    c0 = compilers[0]
    noped_l = [n_ for n_ in list(c0.noped_insns) if n_ in beh]
    sp_names = noped_l + rng.sample(corpus_ok, min(3, len(corpus_ok)))
    sp_parsed = rc.parse_cached({n_: beh[n_] for n_ in sp_names})
    for nm in sp_names:
        if sp_parsed[nm].exception is not None:
            continue
        for sp_ in (nm, "dep_" + nm, "IMPORTED_" + nm, nm + "_undocumented", "undocumented_" + nm):
            prior = list(c0.transformer.ext.preds_written)
            try:
                with rc.quiet():
                    ri = c0.transform_insn(sp_, sp_parsed[nm])
            except Exception as e_:
                if nm in noped_l:
                    res.violation({"what": f"no-op listed instruction {nm}, asked for as {sp_!r}, is compiled (and raises {type(getattr(e_, 'orig_exc', e_)).__name__}) instead of being answered with a NOP",
                                   "reproduce": f"Compiler.transform_insn({sp_!r}, <parse result of {nm}>)"})
                continue
            evals += 1
            pp = list(prior)
            for tree, m in zip(sp_parsed[nm].asts, ri.meta):
                if nm in noped_l:
                    if list(m) != ["HEX_IL_INSN_ATTR_NONE"]:
                        res.violation({"what": f"no-op listed instruction {nm}, asked for as {sp_!r}, reports {list(m)} instead of ['HEX_IL_INSN_ATTR_NONE']",
                                       "reproduce": f"Compiler.transform_insn({sp_!r}, <parse result of {nm}>).meta"})
                    continue
                record(tree, m, pp, {"history": 0, "call": "insn", "insn": sp_})
                for s_ in m:
                    if s_.startswith("HEX_IL_INSN_ATTR_WRITE_P") and int(s_[-1]) not in pp:
                        pp.append(int(s_[-1]))
    # ... also when the caller hands over another text under that name (a text that implies attributes)
    for nm in noped_l:
        for k_, src_ in enumerate(ATTR_PROGS[:6]):
            pr = parsed.get(src_)
            if not pr or pr[0] != "ok":
                continue
            sp_ = (nm, "dep_" + nm, "IMPORTED_" + nm, nm + "_undocumented", "undocumented_" + nm)[k_ % 5]
            try:
                with rc.quiet():
                    ri = c0.transform_insn(sp_, ParsedInsn(sp_, [pr[1]], [src_]))
            except Exception as e_:
                res.violation({"what": f"no-op listed instruction {nm}, asked for as {sp_!r}, is compiled (raises {type(getattr(e_, 'orig_exc', e_)).__name__}) instead of being answered with a NOP", "program": src_})
                continue
            evals += 1
            if [list(m_) for m_ in ri.meta] != [["HEX_IL_INSN_ATTR_NONE"]]:
                res.violation({"what": f"no-op listed instruction {nm}, asked for as {sp_!r} with the text {src_!r}, reports {[list(m_) for m_ in ri.meta]} instead of [['HEX_IL_INSN_ATTR_NONE']]",
                               "reproduce": f"Compiler.transform_insn({sp_!r}, ParsedInsn({sp_!r}, [parser.parse(src)], [src]))"})
    # unimplemented instructions report INVALID
    ui = RZILInstruction.get_unimplemented_rzil_instr("X_dummy")
    if ui.meta != [["HEX_IL_INSN_ATTR_INVALID"]]:
        res.violation({"what": f"unimplemented instruction reports {ui.meta}"})

    replies = drv.run(reqs) if reqs else []
    viol, known, known_dirty, nontriv = [], 0, 0, set()
    for rq, rp, real, what in zip(reqs, replies, meta_real, info):
        r = parse_sx(rp)
        model = [x.s for x in r[0]]
        spec = [x.s for x in r[1]]
        nontriv.add(tuple(spec))
        if real != model:
            viol.append({"what": f"get_meta(): real {real} vs model {model} (specification from the part's own text: {spec})", **what,
                         "history_calls": histories[what["history"]]})
        elif real != spec:
            # model == real but both differ from the specification: only the listed class may do that
            extra = set(real) - set(spec)
            if extra and all(x.startswith("HEX_IL_INSN_ATTR_WRITE_P") for x in extra) and not (set(spec) - set(real)):
                known += 1
            elif what.get("entry_flags") and not what.get("reset_at_entry") and not (set(spec) - set(real) - {"HEX_IL_INSN_ATTR_NONE"}):
                known_dirty += 1   # compile_c_stmt after a failed compile_c_stmt: flags of the failed input (listed finding)
            else:
                viol.append({"what": f"attributes {real} are not those implied by the part's text {spec}", **what,
                             "history_calls": histories[what["history"]]})
    for k in [k for k in known_for(PROP) if k["id"] == "C13-dirty-after-failed-cstmt"]:
        c = rc.compiler("READ_STATEMENTS", fresh=True)
        try:
            with rc.quiet():
                try:
                    c.compile_c_stmt("{ EA = RsV; mem_store_u32(EA, RtV); RdV = foo(RsV); }")
                except Exception:
                    pass
                c.transformer.transform(c.parser.parse("{ RdV = RsV; }"))
                m = c.transformer.ext.get_meta()
                c.transformer.reset()
            if "HEX_IL_INSN_ATTR_MEM_WRITE" in m:
                res.known(f"{k['id']}: {k['what']} [witness history: failing compile_c_stmt with a store, then '{{ RdV = RsV; }}' reports {m}] ({k['site']})")
            else:
                res.notes.append(f"known finding {k['id']} no longer reproduces")
        except Exception as e:
            res.notes.append(f"witness raised {e}")
    for k in [k for k in known_for(PROP) if k["id"] == "C13-preds-written-never-cleared"]:
        # witness history: P0 = ...; then a predicate written by letter reports WRITE_P0
        c = rc.compiler("READ_STATEMENTS", fresh=True)
        HX.preds_written.clear() if False else None
        try:
            with rc.quiet():
                c.transformer.transform(c.parser.parse("{ P0 = RsV; }"))
                c.transformer.reset()
                c.transformer.transform(c.parser.parse("{ PdV = RsV; }"))
                m = c.transformer.ext.get_meta()
                c.transformer.reset()
            if "HEX_IL_INSN_ATTR_WRITE_P0" in m:
                res.known(f"{k['id']}: {k['what']} [witness history: '{{ P0 = RsV; }}' then '{{ PdV = RsV; }}' reports {m}] ({k['site']})")
            else:
                res.notes.append(f"known finding {k['id']} no longer reproduces")
        except Exception as e:
            res.notes.append(f"witness raised {e}")

    def search():
        for v in viol[:3]:
            res.violation(v)
        return len(viol)

    if proof_gate(res, st, search):
        for v in viol[:3]:
            res.violation(v)
    res.coverage.update({
        "evaluations": len(reqs), "distinct_nontrivial": len(nontriv),
        "rule": "one evaluation = one successfully transformed part inside a random compilation history (compile_c_stmt bodies, transform_insn on corpus parts, failing compilations interleaved, two compiler instances); distinct = distinct attribute sets implied by the trees",
        "histories": n_hist, "history_length": hist_len, "corpus_instructions_used": len(corpus_ok),
        "known_class_occurrences": known, "dirty_entry_occurrences": known_dirty, "violations_total": len(viol),
        "samples": [{"history": histories[0][:4]}],
    })
    return res.finish(TB, "cd lean && lake build RzilVerif.Props.C13")
