"""C07 — operands are bound to the right architectural resource, width and .new flag.

Lean holds the architectural table `bindingSpec` (Model/Operands.lean) and the theorems about it
(Props/C07.lean, finite tables enumerated from the REGENERATED grammar terminals).  The tie: every operand
spelling the grammar admits is enumerated here from the grammar Lark actually loaded, must coincide with
Lean's enumeration, and for every spelling that names an architectural resource the real compiler compiles
a read probe and (for writable operands) a write probe whose emitted text Lean compares with the
specification: slot look-up declaration (function, letter / number+class / alias enum, .new flag) and the
denoted tree (which makes the operand's width and signedness visible: a cast to the specified type leaves no
CAST exactly when the compiler gave the operand that type).  Loads, stores and jumps go through the lowering
model (tree equality) and the Lean-executed C-vs-IL search.
"""
from __future__ import annotations

import collections
import json
import random
import re

import gen
import realcode as rc
import semcheck
import translate
from common import *  # noqa

TB = ["Lean 4.33 kernel; axioms propext, Classical.choice, Quot.sound (audited per theorem)",
      "specification Model/Operands.lean bindingSpec (architectural table written from the conventions the property cites; hand-written, not verified against the Hexagon PRM)",
      "plugin contract: ISA2REG/EXPLICIT2OP/ALIAS2OP/NREG2OP/ISA2IMM/READ_REG/WRITE_REG resolve the slot they are asked for (DESIGN 3.2)",
      "Lean tokenizer/parser of the emitted C text (Model/CText.lean); regex enumerator of this harness (sre parse tree of the grammar's own patterns)"]


# ---------------------------------------------------------------- enumeration from the real grammar

def enum_regex(pattern: str, limit=200000) -> list[str]:
    """All strings of a finite regular expression (the operand terminals are finite), from Python's own parse tree."""
    import re._parser as sp  # Python 3.11+
    tree = sp.parse(pattern)

    def seq(items):
        outs = [""]
        for it in items:
            alts = node(it)
            outs = [a + b for a in outs for b in alts]
            if len(outs) > limit:
                raise ValueError("regex too large")
        return outs

    def node(it):
        op, av = it
        name = str(op)
        if name == "LITERAL":
            return [chr(av)]
        if name == "IN":
            chars = []
            for o, v in av:
                if str(o) == "LITERAL":
                    chars.append(chr(v))
                elif str(o) == "RANGE":
                    chars += [chr(c) for c in range(v[0], v[1] + 1)]
                else:
                    raise ValueError(f"unsupported class item {o}")
            return sorted(set(chars))
        if name == "MAX_REPEAT":
            lo, hi, sub = av
            if hi > 8:
                raise ValueError("unbounded repeat")
            res = []
            for k in range(lo, hi + 1):
                outs = [""]
                for _ in range(k):
                    outs = [a + b for a in outs for b in seq(sub)]
                res += outs
            return res
        if name == "SUBPATTERN":
            return seq(av[3])
        if name == "BRANCH":
            res = []
            for alt in av[1]:
                res += seq(alt)
            return res
        raise ValueError(f"unsupported regex node {name}")

    return seq(tree)


def grammar_terminals() -> dict:
    c = rc.compiler()
    out = {}
    for t in c.parser.terminals:
        pat = t.pattern
        out[t.name] = (type(pat).__name__, pat.value)
    return out


def enumerate_spellings(terms):
    def alts(name):
        kind, val = terms[name]
        return [val] if kind == "PatternStr" else enum_regex(val)

    classes = alts("REG_TYPE")
    access = alts("SRC_REG") + alts("DEST_REG") + alts("SRC_DEST_REG") + alts("SRC_REG_PAIR") + alts("DEST_REG_PAIR") + alts("SRC_DEST_REG_PAIR")
    letters = [("letter", c, a, n) for c in classes for a in access for n in (False, True)]
    imms = [("imm", l) for l in alts("IMMEDIATE")]
    # the explicit register pattern is an anonymous terminal: find it by its shape
    expl = [v for k, (kind, v) in terms.items() if kind == "PatternRE" and v.startswith("[RCPVQMGS]")]
    if len(expl) != 1:
        raise RuntimeError(f"explicit register terminal not found / ambiguous: {expl}")
    explicit = []
    for s in enum_regex(expl[0]):
        m = re.fullmatch(r"([A-Z])(\d+)(?::(\d+))?", s)
        for n in (False, True):
            explicit.append(("explicit", m.group(1), m.group(2), m.group(3) or "", n))
    return letters, imms, explicit


def sp_sx(sp):
    if sp[0] == "letter":
        return ["letter", Q(sp[1]), Q(sp[2]), bool(sp[3])]
    if sp[0] == "explicit":
        return ["explicit", Q(sp[1]), Q(sp[2]), Q(sp[3]), bool(sp[4])]
    if sp[0] == "alias":
        return ["alias", Q(sp[1]), bool(sp[2])]
    return ["imm", Q(sp[1])]


def sp_text(sp):
    if sp[0] == "letter":
        return sp[1] + sp[2] + ("N" if sp[3] else "V")
    if sp[0] == "explicit":
        return sp[1] + sp[2] + (":" + sp[3] if sp[3] else "") + ("_NEW" if sp[4] else "")
    if sp[0] == "alias":
        return "HEX_REG_ALIAS_" + sp[1] + ("_NEW" if sp[2] else "")
    return sp[1] + "iV"


def corpus_aliases() -> list[str]:
    names = set()
    for name, text in rc.load_behaviours().items():
        for part in (text if isinstance(text, (list, tuple)) else [text]):
            for m in re.finditer(r"HEX_REG_ALIAS_([A-Z0-9]+?)(?:_NEW)?\b", str(part)):
                names.add(m.group(1))
    return sorted(names)


def u(x):
    if isinstance(x, Q):
        return x.s
    if isinstance(x, list):
        return [u(y) for y in x]
    return x


def field(d, k, default=None):
    for x in d[1:]:
        if isinstance(x, list) and x and x[0] == k:
            return u(x[1]) if len(x) > 1 else default
    return default


def known_match(prop, sp, what):
    for k in known_for(prop):
        if k.get("scope") != "spelling":
            continue
        if re.search(k["spelling_re"], sp_text(sp)) and re.search(k["signature_re"], what):
            return k
    return None


def run(tier, replay=None):
    res = Result("C07", tier)
    st = prepare("C07", translate=translate.run_all)
    res.proof = st
    use_repo()
    rng = random.Random(seed() * 977 + 7)
    terms = grammar_terminals()
    letters, imms, explicit = enumerate_spellings(terms)
    singles = [e for e in explicit if not e[3]]
    pairs = [e for e in explicit if e[3]]
    aliases_c = corpus_aliases()
    alias_names = sorted(set(aliases_c) | {"PC", "SP", "LR", "FP", "GP", "UPCYCLE", "PKTCOUNT", "UTIMER", "USR", "LC0", "SA0", "LC1", "SA1", "M0", "CS1", "UGP", "FRAMEKEY", "FRAMELIMIT"})
    aliases = [("alias", n, nw) for n in alias_names for nw in (False, True)]
    if tier == "quick":
        arch_pairs = [p for p in pairs if int(p[2]) == int(p[3]) + 1 and int(p[3]) % 2 == 0]
        pair_sample = arch_pairs + rng.sample(pairs, 300)
    else:
        pair_sample = pairs
    if replay:
        rp = json.load(open(replay))
        if "spelling" in rp:
            only = tuple(rp["spelling"])
            letters, imms, singles, pair_sample, aliases = [], [], [], [], []
            {"letter": letters, "imm": imms, "explicit": singles, "alias": aliases}[only[0]].append(only)
    universe = letters + imms + singles + pair_sample + aliases

    viol = []
    cnt = collections.Counter()
    drv = Driver()
    # 1. Lean's own enumeration (theorem domain) must be the grammar's
    enum_rep = drv.run([sx(["c07-enum"])])[0]
    en = parse_sx(enum_rep)
    if not replay:
        lean_sets = {x[0]: set(u(x[1:])) for x in en[1:]}
        mine = {"letters": {sp_text(s) for s in letters}, "imms": {sp_text(s) for s in imms}, "singles": {sp_text(s) for s in singles}}
        for k, v in mine.items():
            if lean_sets.get(k) != v:
                viol.append({"what": f"the spelling space of the theorems ({k}) is not the grammar's: only in grammar {sorted(v - lean_sets.get(k, set()))[:8]}, only in Lean {sorted(lean_sets.get(k, set()) - v)[:8]}",
                             "found": False})
        if int(field(en, "pairs", "0")) != len(pairs):
            viol.append({"what": f"explicit pair spellings: grammar admits {len(pairs)}, Lean enumerates {field(en, 'pairs')}", "found": False})
    # 2. specification and probes per spelling
    specs = drv.run([sx(["c07-spec", sp_sx(s)]) for s in universe])
    jobs = []      # (spelling, mode, source)
    undefined = []
    for s, rep in zip(universe, specs):
        d = parse_sx(rep)
        if d[0] != "c07-spec":
            raise RuntimeError(f"driver: {rep[:200]}")
        if field(d, "defined") != "1":
            undefined.append(s)
            continue
        jobs.append((s, "read", field(d, "read")))
        w = [x for x in d[1:] if isinstance(x, list) and x[0] == "write"][0]
        if len(w) > 1:
            jobs.append((s, "write", u(w[1])))
    cnt["spellings"] = len(universe)
    cnt["spellings_with_architectural_resource"] = len(universe) - len(undefined)
    parsed = rc.parse_programs([j[2] for j in jobs])
    rc.close_pool()
    c = rc.compiler("READ_STATEMENTS")
    checks = []
    rejected = collections.Counter()
    for (s, mode, src_), pr in zip(jobs, parsed):
        if pr[0] != "ok":
            rejected[(s[0], mode, "parse")] += 1
            cnt["rejected"] += 1
            must = s[0] in ("letter", "imm") or (s[0] == "alias") or (s[0] == "explicit" and s[1] in "RPC" and not s[3])
            if must and mode == "read":
                viol.append({"what": f"operand spelling {sp_text(s)} names an architectural resource but the probe does not parse", "program": src_, "spelling": list(s), "found": True})
            continue
        r = rc.transform_tree(c, pr[1])
        if r[0] != "ok":
            rejected[(s[0] + ":" + (s[1] if s[0] != "alias" else ""), mode, r[1])] += 1
            cnt["rejected"] += 1
            must = s[0] in ("letter", "imm", "alias") or (s[0] == "explicit" and s[1] in "RPCM" and not s[3])
            if must and mode == "read":
                what = f"operand spelling {sp_text(s)} names an architectural resource but is rejected: {r[1]}: {r[2]}"
                k = known_match("C07", s, what)
                if k:
                    cnt["known:" + k["id"]] += 1
                else:
                    viol.append({"what": what, "program": src_, "spelling": list(s), "found": True})
            continue
        checks.append((s, mode, src_, r[1]))
    reps = drv.run([sx(["c07-check", sp_sx(s), mode, Q(text)]) for s, mode, _, text in checks])
    samples = []
    for (s, mode, src_, text), rep in zip(checks, reps):
        d = parse_sx(rep)
        if d[0] != "c07":
            raise RuntimeError(f"driver: {rep[:200]}")
        cnt["probes_checked"] += 1
        cnt[f"probes_{s[0]}_{mode}"] += 1
        ok = field(d, "parsed") == "1" and field(d, "decl-ok") == "1" and field(d, "tree-equal") == "1"
        if len(samples) < 4 and ok:
            samples.append({"spelling": sp_text(s), "mode": mode, "program": src_, "declaration": field(d, "decl"), "tree": field(d, "real")})
        if ok:
            continue
        problems = []
        if field(d, "parsed") != "1":
            problems.append("emitted text does not parse")
        else:
            if field(d, "decl-ok") != "1":
                problems.append(f"slot declaration differs from the specification: found `{field(d, 'decl')}`")
            if field(d, "tree-equal") != "1":
                problems.append(f"emitted effect differs from the specified binding (width/sign/.new flag/operand variable): expected {field(d, 'model')} got {field(d, 'real')}")
        what = f"{sp_text(s)} ({mode}): " + "; ".join(problems)
        k = known_match("C07", s, what)
        if k:
            cnt["known:" + k["id"]] += 1
            continue
        viol.append({"what": what, "program": src_, "spelling": list(s), "emitted": text, "found": True,
                     "reproduce": f"Compiler(ArchEnum.HEXAGON).compile_c_stmt({src_!r})"})
    # 2c. a SOURCE-letter operand that is also assigned in the behaviour (its access type changes while the behaviour is
    # compiled): the emitted text must still declare the operand and every value it reads (Lean's text checkers)
    import textcheck as _tc
    srcl = [sp_ for sp_ in letters if sp_[2] in ("s", "t", "u", "v", "ss", "tt", "uu", "vv") and not sp_[3] and sp_ not in set(undefined)]
    rw_jobs = []
    for sp_ in srcl:
        x = sp_text(sp_)
        other = sp_[1] + ("w" if len(sp_[2]) == 1 else "ww") + "V"
        dst = sp_[1] + ("d" if len(sp_[2]) == 1 else "dd") + "V"
        for src_ in ("{ %s = %s; %s = %s; }" % (dst, x, x, other), "{ %s = %s; %s = %s; }" % (x, other, dst, x),
                     "{ %s = %s + 1; }" % (x, x), "{ if (PuV) { %s = %s; } %s = %s; }" % (x, other, dst, x)):
            rw_jobs.append((sp_, src_))
    rw_parsed = rc.parse_programs([j[1] for j in rw_jobs])
    rc.close_pool()
    rw_ok = []
    for (sp_, src_), pr in zip(rw_jobs, rw_parsed):
        if pr[0] != "ok":
            continue
        r = rc.transform_tree(c, pr[1])
        if r[0] == "ok":
            rw_ok.append((sp_, src_, r[1]))
    for (sp_, src_, text), rep in zip(rw_ok, drv.run([sx(["text", Q(t_)]) for _, _, t_ in rw_ok]) if rw_ok else []):
        d = _tc.parse_report(rep)
        cnt["source_operand_also_written_probes"] += 1
        probs = ([] if d.get("parsed") else ["emitted text does not parse"]) + list(d.get("c11") or []) + [p_ for p_ in (d.get("c10") or [])]
        if probs:
            what = f"{sp_text(sp_)} read and assigned in one behaviour: " + "; ".join(probs[:3])
            k = known_match("C07", sp_, what)
            if k:
                cnt["known:" + k["id"]] += 1
            else:
                viol.append({"what": what, "program": src_, "spelling": list(sp_), "emitted": text, "found": True,
                             "reproduce": f"Compiler(ArchEnum.HEXAGON).compile_c_stmt({src_!r})"})
    # 2b. two operands in one behaviour (both orders): each keeps its own binding
    defined = [s for s in universe if s not in set(undefined)]
    defset = set(defined)
    pairs2 = []
    for s in defined:
        if s[0] == "letter":
            cands = [("letter", s[1], s[2], not s[3]), ("letter", s[1], s[2] * 2 if len(s[2]) == 1 else s[2][0], s[3])]
            cands += [("letter", c2, s[2], s[3]) for c2 in "RPCM" if c2 != s[1]]
            if s[1] == "P" and s[3]:
                cands.append(("letter", "N", s[2], True))
        elif s[0] == "explicit" and not s[3]:
            cands = [("explicit", s[1], s[2], "", not s[4])]
            if len(s[2]) == 1:
                cands.append(("explicit", s[1], "0" + s[2], "", s[4]))
        elif s[0] == "alias":
            cands = [("alias", s[1], not s[2])]
        else:
            cands = [("imm", s[1].swapcase())]
        for t in cands:
            if t in defset and t != s:
                pairs2.append((s, t))
    if tier == "quick" and len(pairs2) > 700:
        pairs2 = rng.sample(pairs2, 700)
    psrc = drv.run([sx(["c07-pair", sp_sx(a), sp_sx(b)]) for a, b in pairs2])
    pjobs = [(a, b, field(parse_sx(r), "src")) for (a, b), r in zip(pairs2, psrc) if field(parse_sx(r), "defined") == "1"]
    pparsed = rc.parse_programs([j[2] for j in pjobs])
    rc.close_pool()
    pchecks = []
    for (a, b, src_), pr in zip(pjobs, pparsed):
        if pr[0] != "ok":
            cnt["pair_probes_rejected"] += 1
            continue
        r = rc.transform_tree(c, pr[1])
        if r[0] != "ok":
            cnt["pair_probes_rejected"] += 1
            continue
        pchecks.append((a, b, src_, r[1]))
    for (a, b, src_, text), rep in zip(pchecks, drv.run([sx(["c07-check2", sp_sx(a), sp_sx(b), Q(text)]) for a, b, _, text in pchecks])):
        d = parse_sx(rep)
        cnt["pair_probes_checked"] += 1
        ok = field(d, "parsed") == "1" and field(d, "decl-ok") == "1" and field(d, "tree-equal") == "1"
        if ok:
            continue
        what = f"{sp_text(a)} together with {sp_text(b)}: " + ("emitted text does not parse" if field(d, "parsed") != "1" else
               (f"slot declaration differs from the specification: found `{field(d, 'decl')}` " if field(d, "decl-ok") != "1" else "") +
               (f"emitted effect differs from the specified bindings: expected {field(d, 'model')} got {field(d, 'real')}" if field(d, "tree-equal") != "1" else ""))
        k = known_match("C07", a, what) or known_match("C07", b, what)
        if k:
            cnt["known:" + k["id"]] += 1
            continue
        viol.append({"what": what, "program": src_, "spelling": list(a), "emitted": text, "found": True,
                     "reproduce": f"Compiler(ArchEnum.HEXAGON).compile_c_stmt({src_!r})"})
    # 3. the generator's operand tables (used by all semantic properties) agree with the specification
    table = gen.SRC_REGS + gen.NEW_REGS + gen.DEST_REGS + gen.RW_REGS + gen.EXPLICIT_REGS + gen.ALIAS_REGS + gen.EXPLICIT_DESTS
    tsp = []
    for n, t in table:
        m = re.fullmatch(r"([A-Z])([a-z]{1,2})([VN])", n)
        if m:
            tsp.append((("letter", m.group(1), m.group(2), m.group(3) == "N"), t, n))
            continue
        m = re.fullmatch(r"HEX_REG_ALIAS_([A-Z0-9]+?)(_NEW)?", n)
        if m:
            tsp.append((("alias", m.group(1), bool(m.group(2))), t, n))
            continue
        m = re.fullmatch(r"([A-Z])(\d+)(?::(\d+))?(_NEW)?", n)
        tsp.append((("explicit", m.group(1), m.group(2), m.group(3) or "", bool(m.group(4))), t, n))
    for (s, t, n), rep in zip(tsp, drv.run([sx(["c07-spec", sp_sx(s)]) for s, _, _ in tsp])):
        d = parse_sx(rep)
        ty = field(d, "ty")
        if field(d, "defined") != "1" or (ty[0] == "1", int(ty[1])) != tuple(t):
            viol.append({"what": f"operand table of the program generator disagrees with bindingSpec for {n}: generator {t}, specification {ty}", "found": False})
        cnt["generator_table_rows_checked"] += 1
    for l, sg in gen.IMMS:
        d = parse_sx(drv.run([sx(["c07-spec", ["imm", Q(l[0])]])])[0])
        ty = field(d, "ty")
        if (ty[0] == "1") != sg:
            viol.append({"what": f"immediate table of the program generator disagrees with bindingSpec for {l}", "found": False})
    # 4. loads, stores, jumps, the program counter: lowering model + executed search
    progs = []
    for sg in "su":
        for w in (8, 16, 32, 64):
            tn = ("int" if sg == "s" else "uint") + f"{w}_t"
            t = (sg == "s", w)
            for dst in (("int64_t", (True, 64)), ("uint32_t", (False, 32))):
                progs.append([("assign", ("var", "EA", (False, 32)), "=", ("reg", "RsV", (True, 32))),
                              ("decl", dst[0], dst[1], "v1", ("load", tn, t, sg, w))])
    for w in (8, 16, 32, 64):
        for rn, rt in (("RtV", (True, 32)), ("RttV", (True, 64)), ("PtV", (True, 8))):
            progs.append([("store", w, ("bin", "+", ("reg", "RsV", (True, 32)), ("imm", "siV", (True, 32))), ("reg", rn, rt))])
    for rn, rt in (("RsV", (True, 32)), ("RssV", (True, 64)), ("PsV", (True, 8)), ("HEX_REG_ALIAS_LR", (False, 32))):
        progs.append([("jump", ("reg", rn, rt))])
    progs.append([("jump", ("bin", "+", ("reg", "HEX_REG_ALIAS_PC", (False, 32)), ("imm", "riV", (True, 32))))])
    progs.append([("decl", "uint32_t", (False, 32), "v1", ("reg", "HEX_REG_ALIAS_PC", (False, 32)))])
    # several memory accesses / jumps in ONE behaviour: each access keeps its own width, signedness and address, each jump
    # records its own target and the taken flag (same width with both signednesses, in sequence, in the two arms of an if,
    # around an update of EA; jumps in both arms, in an else-if chain, under two separate ifs)
    def _ld(sg, w):
        return ("load", ("int" if sg == "s" else "uint") + f"{w}_t", (sg == "s", w), sg, w)
    _ea = ("var", "EA", (False, 32))
    _ea_set = ("assign", _ea, "=", ("reg", "RsV", (True, 32)))
    _c1 = ("cmp", ">", ("reg", "RtV", (True, 32)), ("lit", "0", 0, (True, 32)))
    _c2 = ("cmp", "<", ("reg", "RsV", (True, 32)), ("lit", "8", 8, (True, 32)))
    _v1 = ("var", "v1", (True, 64))
    for w in (8, 16, 32, 64):
        for a_, b_ in ("su", "us", "ss", "uu"):
            if w == 64 and a_ == b_:
                continue
            progs.append([_ea_set, ("decl", "int64_t", (True, 64), "v1", _ld(a_, w)), ("decl", "int64_t", (True, 64), "v2", _ld(b_, w))])
        for a_, b_ in ("su", "us"):
            progs.append([_ea_set, ("decl", "int64_t", (True, 64), "v1", None),
                          ("if", _c1, [("assign", _v1, "=", _ld(a_, w))], [("assign", _v1, "=", _ld(b_, w))])])
            progs.append([_ea_set, ("decl", "int64_t", (True, 64), "v1", _ld(a_, w)),
                          ("assign", _ea, "=", ("bin", "+", _ea, ("lit", "4", 4, (True, 32)))),
                          ("decl", "int64_t", (True, 64), "v2", _ld(b_, w))])
    for w1, w2 in ((8, 16), (16, 8), (32, 8), (16, 64)):
        progs.append([_ea_set, ("decl", "int64_t", (True, 64), "v1", _ld("s", w1)), ("decl", "int64_t", (True, 64), "v2", _ld("u", w2))])
    _ja, _jb, _jc = ("reg", "RsV", (True, 32)), ("reg", "RtV", (True, 32)), ("bin", "+", ("reg", "HEX_REG_ALIAS_PC", (False, 32)), ("imm", "riV", (True, 32)))
    progs.append([("if", _c1, [("jump", _ja)], [("jump", _jb)])])
    progs.append([("if", _c1, [("jump", _jc)], [("jump", _ja)])])
    progs.append([("if", _c1, [("jump", _ja)], [("if", _c2, [("jump", _jb)], [("jump", _jc)])])])
    progs.append([("if", _c1, [("jump", _ja)], None), ("if", _c2, [("jump", _jb)], None)])
    progs.append([("if", _c2, [("jump", _jb)], None), ("jump", _jc)])
    items = [{"ast": a, "src": gen.prog_src(a), "features": gen.features(a)} for a in progs]
    pp = rc.parse_programs([it["src"] for it in items])
    rc.close_pool()
    for it, pr in zip(items, pp):
        if pr[0] != "ok":
            viol.append({"what": "load/store/jump probe does not parse", "program": it["src"], "found": True})
            continue
        r = rc.transform_tree(c, pr[1])
        if r[0] != "ok":
            viol.append({"what": f"load/store/jump probe rejected: {r[1]}: {r[2]}", "program": it["src"], "found": True})
            continue
        it.update(status="ok", text={"READ_STATEMENTS": r[1]})
    reqs = semcheck.sem_requests(items, 24 if tier == "quick" else 96, seed() + 1)
    known_feats = {f for k in known_for("C07") for f in k.get("feature_any", [])}
    for (i, _), rep in zip(reqs, drv.run([r for _, r in reqs])):
        it = items[i]
        d = semcheck.parse_sem(rep)
        cnt["memory_jump_probes"] += 1
        cnt["states_run"] += d.get("ran", 0)
        bad = []
        if not d.get("parsed"):
            bad.append("emitted text unreadable")
        else:
            if not d["tree-equal"]:
                bad.append(f"emitted effect differs from the lowering model: expected {d['model'][:600]} got {d['real'][:600]}")
            if d.get("fail"):
                bad.append("executing the emitted effect differs from the C text: " + d["fail"])
        if bad:
            if d.get("parsed") and d["tree-equal"] and d.get("fail") and (it["features"] & known_feats):
                # the real output is what the lowering model predicts; the deviation is a listed conversion class
                for k in known_for("C07"):
                    if k.get("scope") == "generated" and set(k.get("feature_any", [])) & it["features"]:
                        cnt["known:" + k["id"]] += 1
                continue
            viol.append({"what": "; ".join(bad), "program": it["src"], "ast": json.dumps(it["ast"]), "found": True})
    # listed findings: witnesses
    for k in known_for("C07"):
        if k.get("scope") in ("spelling", "generated"):
            n = cnt.get("known:" + k["id"], 0)
            if n:
                res.known(f"{k['id']}: {k['what']} [{n} probes of this run, e.g. {k['witness']}] ({k['site']})")
            else:
                res.notes.append(f"known finding {k['id']} did not occur in this run's sample")

    def search():
        for v in viol[:6]:
            res.violation({k_: v_ for k_, v_ in v.items() if k_ != "found"}, found_input=v.get("found", True))
        return len([v for v in viol if v.get("found", True)])

    if proof_gate(res, st, search):
        for v in viol[:6]:
            res.violation({k_: v_ for k_, v_ in v.items() if k_ != "found"}, found_input=v.get("found", True))
    if os.environ.get("VERIF_DEBUG"):
        json.dump(viol, open("/tmp/c07_viol.json", "w"), indent=1, default=str)
    res.coverage.update({
        "evaluations": cnt["probes_checked"] + cnt["pair_probes_checked"] + cnt["memory_jump_probes"], "distinct_nontrivial": cnt["spellings_with_architectural_resource"],
        "rule": "one evaluation = one probe program compiled by the real compiler and compared by Lean with the binding specification (slot declaration + denoted tree); distinct = operand spellings naming an architectural resource; the spelling space is enumerated from the grammar Lark loaded (all letter spellings, all immediates, all explicit singles, explicit pairs: architectural ones + a seeded sample in quick / all 16384 in thorough, aliases of the corpus + a fixed list)",
        "counts": dict(cnt), "rejected_by_kind": {str(k): v for k, v in rejected.items()}, "spellings_without_architectural_resource_not_judged": len(undefined),
        "aliases_in_corpus": aliases_c, "violations_total": len(viol), "samples": samples,
    })
    res.assumptions += ["spellings naming no architectural resource (class O/V/Q, P/M/N pairs, register numbers out of range, non-consecutive pairs) are not judged",
                        "rejecting an architecturally valid spelling with an exception is allowed for guest/system/HVX classes and explicit pairs (the property forbids approximating, not refusing)"]
    return res.finish(TB, "cd lean && lake build RzilVerif.Props.C07")
