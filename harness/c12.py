from textprops import run_prop


def run(tier, replay=None):
    return run_prop("C12", tier, replay)
