"""Debug helper: replay one AST (from a replay file or its examples[0]) through the real compiler and the Lean driver."""
import json, sys
sys.path.insert(0, '/verif/harness')
import realcode as rc, semcheck, semprops, gen
from common import *
d = json.load(open(sys.argv[1]))
a = d.get("ast") or d["examples"][int(sys.argv[2]) if len(sys.argv) > 2 else 0]["ast"]
ast = semprops._detuple(json.loads(a))
src = gen.prog_src(ast)
print(src)
c = rc.compiler("READ_STATEMENTS")
pr = rc.parse_programs([src])[0]
r = rc.transform_tree(c, pr[1])
print(r[0])
if r[0] == "ok":
    if "-v" in sys.argv: print(r[1])
    rep = Driver().run([sx(["sem", "asCode", semcheck.prog_sx(ast), Q(r[1]), 24, 1, semprops.CSUBS])])[0]
    dd = semcheck.parse_sem(rep)
    print({k: v for k, v in dd.items() if k not in ("model", "real")})
    m, rr = dd.get("model", ""), dd.get("real", "")
    i = 0
    while i < min(len(m), len(rr)) and m[i] == rr[i]: i += 1
    print("M:", m[max(0, i-200):i+400]); print("R:", rr[max(0, i-200):i+400])
else:
    print(r)
