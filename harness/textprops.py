"""C10 / C11 / C12 / C16: properties decided per output by Lean checkers run on the RAW emitted text.

For each property the verdict on one output is computed by Lean (`wfEffect`, `wfBodyProblems`,
`linearProblems`, `denoteIL` equality); the quantifier "all accepted behaviours" is covered by the whole
bundled corpus (thorough) / a stratified sample (quick), all sub-routines, and generated programs
(clean stream: must be perfect; wild stream: failures must be explained by a listed known finding).
"""
from __future__ import annotations

import re

from common import *  # noqa
import gen
import realcode as rc
import textcheck
import translate

TB = [
    "Lean 4.33 kernel; axioms propext, Classical.choice, Quot.sound (audited per theorem)",
    "Lean tokenizer/parser of the emitted C text (Model/CText.lean), `denoteIL` reading: a C variable holds one IL node, using it moves it, DUP clones it",
    "RzIL sort rules as stated in the property (Model/ILSort.lean); documented operand widths by operand-variable name",
    "harness (Python): corpus loading, program generator and its carve-out classifier, diffing",
    "Lean compiler for running the checkers in the driver",
]

CLEAN_FORBIDDEN = {
    "C10": gen.SORT_FEATURES | {"callee_tmp", "hybrid_in_ternary_arm", "fold_arith"},
    "C11": gen.TEXT_FEATURES | {"fold_arith"},
    "C12": gen.TEXT_FEATURES,
    "C16": set(),
}


# the same construct more than once in one behaviour (shared or cached nodes show up only then)
REPEATS = [
    "{ cancel_slot; cancel_slot; }", "{ if (PuV) { cancel_slot; } else { cancel_slot; } RdV = RsV; cancel_slot; }",
    "{ STORE_SLOT_CANCELLED(pkt, slot); STORE_SLOT_CANCELLED(pkt, slot); }",
    "{ if (PuV) { STORE_SLOT_CANCELLED(pkt, slot); } else { STORE_SLOT_CANCELLED(pkt, slot); cancel_slot; } }",
    "{ EA = RsV; RdV = ((int32_t)mem_load_s32(EA)); ReV = ((int32_t)mem_load_s32(EA)); }",
    "{ EA = RsV; mem_store_u32(EA, RtV); mem_store_u32(EA, RtV); }",
    "{ JUMP(RsV); JUMP(RsV); }", "{ if (PuV) { JUMP(RsV); } else { JUMP(RsV); } }",
    "{ RdV = RsV + RsV + RsV; ReV = RsV; RxV = RsV; }", "{ RdV = siV + siV; ReV = siV; }",
    "{ RdV = (RsV + 1) * (RsV + 1); ReV = (RsV + 1); }", "{ int32_t a = 1; RdV = a + a + a; ReV = a; }",
    "{ RdV = clz32(RsV) + clz32(RsV); ReV = clz32(RsV); }", "{ i = 0; RdV = i++ + i++; ReV = i++; }",
    "{ RdV = sextract64(RsV, 0, 8) + sextract64(RsV, 0, 8); }", "{ RdV = 5; ReV = 5; RxV = 5 + 5; }",
    "{ RdV = HEX_REG_ALIAS_PC + HEX_REG_ALIAS_PC; ReV = HEX_REG_ALIAS_PC; }", "{ RdV = P0 + P0; ReV = P0; P1 = P0; }",
    "{ RdV = (PuV ? RsV : RtV) + (PuV ? RsV : RtV); }", "{ ; ; { } { ; } RdV = RsV; ; }",
    "{ for (i = 0; i < 2; i++) { cancel_slot; } for (j = 0; j < 2; j++) { cancel_slot; } }",
    "{ RdV = (PuV ? ({ int32_t q = RsV; q; }) : RtV) + (PvV ? RtV : ({ int32_t r = RsV; r; })); }",
    # BOTH arms of one ?: are statement-expressions (declaration, register / predicate assignment, store as the arm's statement)
    "{ RdV = (PuV ? ({ int32_t q = RsV; q; }) : ({ int32_t r = RtV; r; })); }",
    "{ int32_t v = 1; RdV = ((RsV > 0) ? ({ RxV = RtV; 5; }) : ({ ReV = RsV; 7; })); }",
    "{ int32_t v = 1; RdV = (PuV ? ({ v = RtV; v; }) : ({ P0 = RsV; 7; })); }",
    "{ EA = RsV; RdV = (PuV ? ({ RxV = RtV; 5; }) : ({ mem_store_u32(EA, RtV); 7; })); }",
    # value-producing side effects inside a loop condition
    "{ for (i = 0; i < clz32(RsV); i++) { RxV = RxV + 1; } }", "{ uint32_t n = RsV & 7; for (i = 0; i < n--; i++) { RxV = RxV + 1; } }",
    "{ for (i = 0; i < 2; i++) { for (j = 0; j < clz32(RsV); j++) { RxV = RxV + 1; } } }",
]


# C16 only: code that is parsed but not live (dead ?: arms, values nobody uses) - both layouts must still report the same
# attributes and denote the same effect (whether a layout prints dead declarations is C12's business)
DEAD_CODE = [
    "{ EA = RsV; RdV = (1 == 0 ? ((int64_t)((int32_t)mem_load_s32(EA))) : 2); }", "{ EA = RsV; RdV = (0 ? ((int32_t)mem_load_s32(EA)) : RtV); }",
    "{ EA = RsV; RdV = (1 ? RtV : ((int32_t)mem_load_s32(EA)) + 1); }", "{ EA = RsV; ((int32_t)mem_load_s32(EA)); RdV = RtV; }",
    "{ RdV = (0 ? PuN : RtV); }", "{ RdV = (1 ? RtV : (PuV ? NsN : RtV)); }", "{ RdV = (0 ? P0 : RtV); if (0) { P1 = RsV; } }",
    "{ if (1 == 0) { EA = RsV; mem_store_u32(EA, RtV); } RdV = RsV; }", "{ if (0) { JUMP(RsV); } RdV = RsV; }",
    "{ RdV = RsV; (RtV + 1); }", "{ RdV = (1 ? RsV : clz32(RtV)); }",
    "{ RdV = (1 == 0) ? ((RsV > 0) ? ({ RxV = RtV; 5; }) : 7) : 3; }", "{ RdV = (0 ? ((RsV > RtV) ? ({ int32_t q = RtV; q; }) : 7) : 3); }",
    "{ RdV = (1 ? 3 : ((RsV > 0) ? 7 : ({ RxV = RtV; 5; }))); }", "{ RdV = (1 == 0) ? ((RsV + 1 > 0) ? (RtV * 2) : ((int32_t)clz32(RtV))) : 3; }",
    "{ RdV = (0 ? ({ set_usr_field(bundle, HEX_REG_FIELD_USR_OVF, 1); RsV; }) : RtV); }",
    "{ RdV = (1 == 0) ? ((RsV > 0) ? ({ set_usr_field(bundle, HEX_REG_FIELD_USR_OVF, 1); 5; }) : 7) : 3; }",
]


# operands that are named but never evaluated (sizeof) and architectural aliases used as destinations
UNEVALUATED = [
    ("{ RdV = sizeof(RsV); }", {"sizeof_only_operand"}), ("{ RddV = sizeof(RssV) + RtV; }", {"sizeof_only_operand"}),
    ("{ int16_t a = RtV; RdV = sizeof(a) + sizeof(RsV); }", {"sizeof_only_operand"}),
    "{ RdV = RsV + sizeof(RsV); }", "{ RdV = sizeof(RsV); ReV = RsV; }", "{ int16_t a = RtV; RdV = sizeof(a); }",
    ("{ HEX_REG_ALIAS_PC = RsV; }", {"alias_pc_written"}), ("{ if (PuV) { HEX_REG_ALIAS_PC = RsV + 4; } }", {"alias_pc_written"}),
    "{ HEX_REG_ALIAS_USR = RsV; }", "{ HEX_REG_ALIAS_LR = RsV; RdV = HEX_REG_ALIAS_LR; }", "{ HEX_REG_ALIAS_SP = HEX_REG_ALIAS_SP + 8; }",
]
# operators the lowering model does not cover (the per-output properties need no model): division and remainder
DIVISIONS = [
    "{ RddV = RssV / RttV; }", "{ RddV = RssV / RtV; }", "{ uint32_t a = RsV; RdV = a / RtV; }", "{ RdV = RsV / PtV; }", "{ RddV = RssV / (RtV + RuV); }",
    "{ RddV = RssV % ((int64_t)RtV); }", "{ RdV = RsV % RtV; }", "{ RdV = RsV / 3; }", "{ RdV = (RsV / RtV) + (RsV % RtV); }", "{ uint8_t a = RsV; uint16_t b = RtV; RdV = a / b; }",
]
# C11/C16/C10: a constant ?: whose DEAD arm is a compound expression sharing operands with live code (the dead arm must not take
# the declarations of its operands with it)
DEAD_COMPOUND_ARMS = [
    "{ RdV = ((8 != 0) ? RsV : (RsV >> 8)); }", "{ RdV = (1 ? RsV : (RsV + RtV)); ReV = RtV; }", "{ RdV = (0 ? (RsV * RtV) : RtV); ReV = RsV; }",
    "{ RdV = ((16 != 0) ? sextract64(RsV, 0, 16) : (RsV & RtV)); ReV = RtV + 1; }", "{ RdV = RsV + RtV; ReV = (0 ? ((RsV - RtV) << 2) : 5); }",
    "{ RdV = ((1 == 1) ? (RsV | siV) : (siV + RtV)); }", "{ PdV = (1 ? PuV : (PuV & PvV)); }", "{ RddV = (0 ? (RssV + RttV) : RssV); }",
]
# stores whose data is a folded constant of exactly the store's type / another type
CONST_STORES = [
    "{ EA = RsV; mem_store_u32(EA, 5); }", "{ EA = RsV; mem_store_u32(EA, -5); }", "{ EA = RsV; mem_store_u32(EA, ~0U); }", "{ EA = RsV; mem_store_u32(EA, 2 + 3); }",
    "{ EA = RsV; mem_store_u64(EA, -1LL); }", "{ EA = RsV; mem_store_u64(EA, 1ULL << 3); }", "{ EA = RsV; mem_store_u8(EA, 0x100 - 1); }", "{ EA = RsV; mem_store_u16(EA, -(2 * 4)); }",
]


def problems_for(prop: str, rep: dict) -> list[str]:
    if "error" in rep:
        return ["driver error: " + rep["error"][:100]]
    if prop == "C10":
        return list(rep.get("c10", []))
    if prop == "C11":
        return list(rep.get("c11", []))
    if prop == "C12":
        return list(rep.get("c12", [])) + ([] if rep.get("parsed") else ["text does not parse"])
    return []


def match_known(prop, scope, ident, feats, probs) -> list | None:
    """Every problem must be explained by a listed finding whose triggering construct is present
    (generated programs) / whose instruction or sub-routine is named (corpus). Returns the ids."""
    ids = []
    for p in probs:
        hit = None
        for k in known_for(prop):
            if k.get("scope") != scope:
                continue
            if scope == "corpus":
                if ident != k.get("insn"):
                    continue
            elif scope == "sub":
                if ident != k.get("sub"):
                    continue
            else:
                if not (set(k.get("feature_any", [])) & set(feats)):
                    continue
            if re.search(k["signature_re"], p):
                hit = k["id"]
                break
        if hit is None:
            return None
        ids.append(hit)
    return ids


OPERANDS = ["RsV", "RxV", "RxxV", "PuV", "PxV", "NsN", "PtN", "siV", "uiV", "P0", "R31", "HEX_REG_ALIAS_SP", "HEX_REG_ALIAS_PC", "CsV", "MuV", "RssV"]
REC_CTX = ["{ int32_t a = 1; int32_t b = 2; EA = ((a + %s) + b); }", "{ int32_t a = 1; int32_t b = (a ? %s : a); }",
           "{ int32_t a = 1; if (a) { a = %s; } }", "{ int32_t a = 1; EA = a; mem_store_u32(EA, %s); }",
           "{ int32_t a = 1; int32_t b = sextract64(a, %s, a); }", "{ int32_t a = 1; int32_t b = a + ((int32_t)clz32(a + %s)); }"]
REC_WRITE = ["{ int32_t a = 1; RdV = a; a = (a + RdV) + a; }", "{ int32_t a = 1; RxV = (a + RxV) + a; }", "{ int32_t a = 1; PdV = a; }",
             "{ int32_t a = 1; JUMP(a); }", "{ int32_t a = 1; cancel_slot; a = a + 1; }", "{ int32_t a = 1; a = a + 1; }",
             "{ int32_t a = 1; if (a) { STORE_SLOT_CANCELLED(pkt, slot); } }", "{ int32_t a = 1; EA = a; a = ((int32_t)mem_load_s32(EA)); }"]


def alias_spellings(viol, seed_) -> int:
    """One compiler asked for the same instruction under every spelling `transform_insn_name` maps to it (dep_X, IMPORTED_X,
    X_undocumented, undocumented_X, SA2_tfrsi): every answer is the record of X (same name, same getters), and over everything
    the compiler has buffered (`compiled_insns`) a getter name belongs to exactly one instruction."""
    import random as _r
    beh = rc.load_behaviours()
    rng = _r.Random(seed_ * 53 + 11)
    comp = sorted(n for n, b in beh.items() if len(b) > 1)
    plain = sorted(n for n, b in beh.items() if len(b) == 1 and len(b[0]) < 200 and not n.startswith("V6_"))
    names = ["A2_tfrsi"] + rng.sample(plain, 4) + rng.sample(comp, 2)
    parsed = rc.parse_cached({n: beh[n] for n in names})
    c = rc.compiler(textcheck.FORMATS[0], fresh=True)
    type(c).compiled_insns = dict()
    n_req = 0
    for nm in names:
        sp = [nm, "dep_" + nm, "IMPORTED_" + nm, nm + "_undocumented", "undocumented_" + nm] + (["SA2_tfrsi"] if nm == "A2_tfrsi" else [])
        rng.shuffle(sp)
        first = None
        for s_ in sp:
            try:
                with rc.quiet():
                    ri = c.transform_insn(s_, parsed[nm])
            except Exception as e:
                viol.append({"what": [f"transform_insn({s_!r}) raises {type(getattr(e, 'orig_exc', e)).__name__} although {nm} compiles"], "scope": "alias-spelling", "ident": s_})
                continue
            n_req += 1
            rec = (ri.name, list(ri.getter_rzil["name"]), list(ri.getter_rzil["fcn_decl"]), list(ri.rzil))
            if first is None:
                first = rec
            if ri.name != nm or rec[1:3] != first[1:3]:
                viol.append({"what": [f"asked for {s_!r}: record named {ri.name!r} with getters {rec[1]}, the record of {nm!r} has {first[1]}"], "scope": "alias-spelling", "ident": s_})
    owners = {}
    for key, ri in c.compiled_insns.items():
        for g in ri.getter_rzil["name"]:
            owners.setdefault(g, []).append(key)
    dup = {g: ks for g, ks in owners.items() if len(ks) > 1}
    if dup:
        g, ks = sorted(dup.items())[0]
        viol.append({"what": [f"getter names are not unique across the instructions the compiler has buffered: {g} belongs to {ks} ({len(dup)} such names)"],
                     "scope": "alias-spelling", "ident": g,
                     "reproduce": f"one Compiler: transform_insn under each of the spellings {ks}; then inspect Compiler.compiled_insns"})
    return n_req


def records_of_programs(gen_srcs, viol) -> int:
    """The companion record (needs_hi / needs_pkt, getters) of behaviours compiled through `transform_insn`:
    every operand kind alone between locals in several contexts, single and as the second part of a two-part
    instruction, plus generated programs. The mention test is Lean's (token level, on the text of the record)."""
    from rzilcompiler.Parser import ParsedInsn
    srcs = [c_ % o for o in OPERANDS for c_ in REC_CTX] + REC_WRITE + list(gen_srcs)
    parsed = rc.parse_programs(srcs)
    c = rc.compiler(textcheck.FORMATS[0])
    plain = "{ int32_t q = 1; q = q + 1; }"
    plain_tree = c.parser.parse(plain)
    sess = textcheck.TextSession()
    for name, ret, params, text in rc.sub_routine_defs(c):
        sess.def_sub(name, ret, params, text)
    recs = []
    for i, (src, pr) in enumerate(zip(srcs, parsed)):
        if pr[0] != "ok":
            continue
        for two in (False, True):
            name = f"GEN_rec{i}" + ("_2p" if two else "")
            pi = ParsedInsn(name, [plain_tree, pr[1]] if two else [pr[1]], [plain, src] if two else [src])
            r = rc.transform_all(c, {name: pi})[name]
            if r["status"] != "ok":
                continue
            for j, text in enumerate(r["rzil"]):
                sess.text(text, tag=(len(recs), j))
            recs.append((name, src, r))
    n = 0
    for tag, rep in sess.run():
        if tag is None:
            continue
        name, src, r = recs[tag[0]]
        j = tag[1]
        n += 1
        bad = []
        if rep.get("hi") and not r["needs_hi"][j]:
            bad.append("text mentions hi but needs_hi is false")
        if rep.get("pkt") and not r["needs_pkt"][j]:
            bad.append("text mentions pkt but needs_pkt is false")
        nparts = len(r["rzil"])
        want = f"hex_il_op_{name.lower()}" + (f"_part{j}" if nparts > 1 else "")
        if len(r["getter"]) != nparts or len(r["getter_decl"]) != nparts or len(r["needs_hi"]) != nparts or len(r["needs_pkt"]) != nparts:
            bad.append("not one getter / flag per part")
        elif r["getter"][j] != want or want not in r["getter_decl"][j]:
            bad.append(f"getter name {r['getter'][j]!r}, expected {want!r}")
        if bad:
            viol.append({"what": bad, "scope": "record", "ident": name, "part": j, "program": src, "emitted": r["rzil"][j],
                         "reproduce": f"transform_insn({name!r}, ParsedInsn(.., [parse({src!r})], ..)) and compare needs_hi/needs_pkt with the text"})
    return n


SUB_BUNDLE_SPELLINGS = ["HexInsnPktBundle *bundle", "HexInsnPktBundle* bundle", "const HexInsnPktBundle *bundle", "HexInsnPktBundle  *bundle",
                        "HexInsnPktBundle * bundle"]
SUB_BODIES = [("uint32_t", ["uint32_t a"], "{ return a + HEX_REG_ALIAS_USR; }"), ("uint32_t", ["uint32_t a"], "{ uint32_t x = a + RsV; return x; }"),
              ("uint32_t", ["uint32_t a"], "{ return a + siV; }"), ("uint32_t", ["uint32_t a"], "{ return a + 1; }"),
              ("int64_t", ["int64_t a", "int32_t b"], "{ return a / b; }"), ("uint32_t", ["uint32_t a", "uint8_t b"], "{ return (a % b) + (a / b); }"),
              ("uint32_t", ["uint32_t a"], "{ return (a * a) + a; }")]


def api_sub_routines(viol, prop="C11") -> int:
    """Sub-routines registered through the public API (`compile_sub_routine`): a body that mentions hi / pkt declares
    them, whatever legal spelling the bundle parameter's type has (Lean's wfBody on the DEF text)."""
    from rzilcompiler.Transformer.Hybrids.SubRoutine import SubRoutineInitType
    c = rc.compiler(textcheck.FORMATS[0], fresh=True)
    sess = textcheck.TextSession()
    done = []
    k = 0
    for sp in SUB_BUNDLE_SPELLINGS:
        for ret, params, body in SUB_BODIES:
            k += 1
            name = f"gen_api_sub_{k}"
            try:
                with rc.quiet():
                    c.add_sub_routine(name, ret, [sp] + params, body)
            except Exception as e:   # a spelling the dialect does not accept is rejected, which is fine
                continue
            d = [x for x in rc.sub_routine_defs(c) if x[0] == name]
            if not d:
                continue
            n_, ret_s, ps, text = d[0]
            sess.def_sub(n_, ret_s, ps, text, tag=len(done))
            done.append((name, sp, body, text))
    # a routine registered a SECOND time (other parameter widths) next to routines compiled before and after it: every body
    # must call it with the signature its emitted definition has
    k0 = len(done)
    hist = [("api_h_leaf", "uint32_t", ["uint32_t t"], "{ return t + 1; }"), ("api_h_user1", "uint32_t", ["uint32_t v"], "{ return api_h_leaf(v) + 2; }"),
            ("api_h_leaf", "uint32_t", ["uint64_t t"], "{ return t + 1; }"), ("api_h_user2", "uint32_t", ["uint32_t v"], "{ return api_h_leaf(v) + 3; }"),
            ("api_h_leaf", "uint16_t", ["uint16_t t"], "{ return t + 1; }"), ("api_h_user3", "uint64_t", ["uint64_t v"], "{ return api_h_leaf(v) + api_h_user1(v); }")]
    for name, ret, params, body in hist:
        try:
            with rc.quiet():
                c.add_sub_routine(name, ret, params, body)
        except Exception:
            continue
    for n_, ret_s, ps, text in rc.sub_routine_defs(c):
        if n_.startswith("api_h_"):
            sess.def_sub(n_, ret_s, ps, text, tag=len(done))
            done.append((n_, "registration history", "", text))
    for tag, rep in (sess.run() if done else []):
        if tag is None:
            continue
        name, sp, body, text = done[tag]
        if prop == "C10":
            probs = list(rep.get("c10", []))
        elif prop == "C12":
            probs = list(rep.get("c12", []))
        else:
            probs = [p_ for p_ in rep.get("c11", []) if tag >= k0 or re.search(r"\b(hi|pkt)\b", p_)]
        if probs:
            viol.append({"what": probs[:3], "scope": "api-sub", "ident": name, "bundle_parameter": sp, "program": body, "emitted": text,
                         "reproduce": f"Compiler.compile_sub_routine({name!r}, 'uint32_t', [{sp!r}, 'uint32_t a'], {body!r})"})
    return len(done)


CHAINS = [
    "{ int64_t a; int64_t b; a = b = 5; }", "{ RddV = RxxV = 0x10; }", "{ int64_t p0; int64_t p1; p0 = p1 = 0; RddV = p0 + p1; }",
    "{ int16_t a; int64_t b; b = a = RsV; RdV = a; RddV = b; }", "{ uint8_t a; uint32_t b; int64_t c; c = b = a = 300; RddV = c + a; }",
    "{ RdV = ReV = RsV + 1; }", "{ int64_t a = 5; int64_t b = 5; RddV = ((int64_t)5) + a + b; }",
    "{ RddV = ((RtV > 0) ? ((int64_t)RsV) : ((int64_t)RsV)) + ((int64_t)RsV); }", "{ RddV = (int64_t)((int16_t)((int8_t)RsV)); RxxV = (int64_t)((int16_t)((int8_t)RsV)); }",
]


inl_known = {}


def inlining_settings(viol, prop) -> int:
    """The transformer's public setting `inlined_pure_classes` (which pures are written inline instead of being bound by LET /
    a C variable; the test-suite uses five values of it): the per-output properties hold under every setting.  Directed programs
    (repeated constructs, chained assignments of constants, casts of casts, divisions) through the Lean checkers."""
    from rzilcompiler.Transformer.Pures.Cast import Cast
    from rzilcompiler.Transformer.Pures.Number import Number
    # (a folded literal expression gets a name that is no C identifier once numbers are not inlined: listed finding
    # C11-folded-name-invalid-identifier, not repeated here)
    progs = [p_ for p_ in REPEATS + CHAINS + DIVISIONS if isinstance(p_, str) and "5 + 5" not in p_]
    parsed = rc.parse_programs(progs)
    rc.close_pool()
    n = 0
    for setting in [(Cast,), (), (Number,), (Cast, Number)]:
        c = rc.compiler(textcheck.FORMATS[0], fresh=True)
        c.transformer.inlined_pure_classes = setting
        ok = []
        for src, pr in zip(progs, parsed):
            if pr[0] != "ok":
                continue
            r = rc.transform_tree(c, pr[1])
            if r[0] == "ok":
                ok.append((src, r[1]))
        sess = textcheck.TextSession()
        for name, ret, params, text in rc.sub_routine_defs(c):
            sess.def_sub(name, ret, params, text, tag=None)
        for i_, (_, t_) in enumerate(ok):
            sess.text(t_, tag=i_)
        for tag, rep in sess.run():
            if tag is None:
                continue
            src, text = ok[tag]
            n += 1
            probs = problems_for(prop, rep)
            # listed finding (settings that do not inline numbers): a constant that is the DIRECT operand of an effect is read as
            # VARLP(..) although only pure operations wrap their operands in LET - explained only if every read of that
            # constant in this text has that shape
            if probs and Number not in setting:
                kid = {"C10": "C10-uninlined-number-unbound", "C12": "C12-uninlined-number-unused"}.get(prop)
                left = []
                for p_ in probs:
                    m_ = re.search(r'VARLP\("(\w+)"\): LET-bound name not in scope|pure (\w+) is initialised but never used', p_)
                    nm = m_ and (m_.group(1) or m_.group(2))
                    occ = len(re.findall(r'VARLP\("%s"\)' % re.escape(nm), text)) if nm else 0
                    direct = len(re.findall(r'(?:SETL\("\w+", |WRITE_REG\(bundle, \w+, |STOREW\(\w+, )VARLP\("%s"\)\)' % re.escape(nm), text)) if nm else 0
                    if kid and nm and nm.startswith("const_") and occ > 0 and occ == direct:
                        inl_known[kid] = inl_known.get(kid, 0) + 1
                    else:
                        left.append(p_)
                probs = left
            if probs:
                viol.append({"what": probs[:3], "scope": "inlining-setting", "ident": src, "program": src, "emitted": text,
                             "setting": [x.__name__ for x in setting],
                             "reproduce": f"c = Compiler(ArchEnum.HEXAGON); c.transformer.inlined_pure_classes = ({', '.join(x.__name__ for x in setting)},); c.compile_c_stmt({src!r})"})
    return n


def read_protocol(viol) -> int:
    """The read-counter protocol itself, on the REAL objects: after a behaviour is transformed (before the reset) every
    shared node the transformer holds - source registers, non-inlined PureExec results, pure parameters of a
    sub-routine body - is read k more times through its own `il_read()`; the k texts must be what the Lean protocol
    model `readsOf` gives (first read raw, every later one DUP) - the hypothesis of Props/C12's read_protocol."""
    from rzilcompiler.Transformer.Pures.Register import Register, RegisterAccessType
    from rzilcompiler.Transformer.Pures.PureExec import PureExec
    from rzilcompiler.Transformer.Pures.Parameter import Parameter
    from rzilcompiler.Transformer.Hybrids.Hybrid import Hybrid
    from rzilcompiler.Transformer.ValueType import VTGroup
    c = rc.compiler(textcheck.FORMATS[0], fresh=True)
    srcs = ["{ RdV = (RsV + RtV) * (RsV - RtV); ReV = ((int64_t)RssV) >> 3; PdV = (RsV < RtV) ? PuV : PvV; }",
            "{ EA = RsV + siV; RdV = ((int32_t)mem_load_s32(EA)) + sextract64(RtV, 0, 8); CdV = CsV & MuV; }",
            "{ RddV = (RssV ^ RttV) | ((uint64_t)NsN); RdV = HEX_REG_ALIAS_SP + P0 + R31; }"]
    objs = []
    proto_n = 0
    for src in srcs:
        tr = c.transformer
        with rc.quiet():
            tr.transform(c.parser.parse(src))
        h = tr.il_ops_holder
        for o in list(h.read_ops.values()) + list(h.exec_ops.values()):
            if isinstance(o, Hybrid):
                continue
            if isinstance(o, Register):
                if o.access in (RegisterAccessType.W, RegisterAccessType.PW) or o.isa_id == "x":
                    continue      # destination-only and Rx registers are read afresh by design (no shared node)
                objs.append(("Register", o))
            elif isinstance(o, PureExec) and not getattr(o, "inlined", False):
                objs.append((type(o).__name__, o))
        # read them now, before the reset
        reqs, got = [], []
        for kind, o in objs:
            o.reads = 0
            k = 1 + (len(got) % 5)
            texts = [o.il_read() for _ in range(k)]
            got.append((kind, o.pure_var().replace(":", "_"), k, texts))
        with rc.quiet():
            tr.reset()
        reps = Driver().run([sx(["reads", Q(n), k]) for _, n, k, _ in got]) if got else []
        for (kind, n, k, texts), rep in zip(got, reps):
            want = [x.s if isinstance(x, Q) else x for x in parse_sx(rep)[1:]]
            if [t.replace(" ", "") for t in texts] != [w.replace(" ", "") for w in want]:
                viol.append({"what": [f"{kind} {n}: {k} successive il_read() calls give {texts}, the read protocol gives {want}"], "scope": "protocol", "ident": n, "program": src})
        proto_n += len(got)
        objs = []
    # pure parameters of a sub-routine body
    p = Parameter("a", __import__("rzilcompiler.Transformer.ValueType", fromlist=["ValueType"]).ValueType(False, 32))
    if p.value_type.group & VTGroup.PURE:
        texts = [p.il_read() for _ in range(4)]
        want = [x.s if isinstance(x, Q) else x for x in parse_sx(Driver().run([sx(["reads", Q("a"), 4])])[0])[1:]]
        proto_n += 1
        if texts != want:
            viol.append({"what": [f"Parameter a: 4 successive il_read() calls give {texts}, the read protocol gives {want}"], "scope": "protocol", "ident": "a"})
    return proto_n


def run_prop(prop: str, tier: str, replay=None) -> int:
    res = Result(prop, tier)
    st = prepare(prop, translate=translate.run_all, extra_modules=["RzilVerif.Props.PerOutput"] if prop in ("C11", "C12", "C16") else [])
    res.proof = st

    viol = []  # (payload)
    known_hit: dict[str, int] = {}
    evals = 0
    distinct = set()
    samples = []

    def judge(scope, ident, feats, reps: dict, src=None, extra=None):
        """reps: fmt -> report"""
        nonlocal evals
        evals += 1
        probs_by_fmt = {f: problems_for(prop, r) for f, r in reps.items()}
        if prop == "C16":
            ds = {f: r.get("denote") for f, r in reps.items()}
            probs = []
            if len(set(ds.values())) != 1 or None in ds.values() or "" in ds.values():
                probs.append("the two layouts denote different effects")
            for f, r in reps.items():
                if not r.get("parsed"):
                    probs.append(f"layout {f}: text does not parse")
                elif r.get("c11") or r.get("c12"):
                    pass  # well-formedness of each layout is C11/C12's own verdict; C16 requires parse + equal denotation
            if extra and extra.get("meta") and len({tuple(m) for m in extra["meta"].values()}) != 1:
                probs.append("the two layouts report different attributes")
            probs_by_fmt = {"both": probs}
        for f, probs in probs_by_fmt.items():
            if not probs:
                continue
            k = match_known(prop, scope, ident, feats, probs)
            if k:
                for kid in set(k):
                    known_hit[kid] = known_hit.get(kid, 0) + 1
                continue
            viol.append({"what": probs[:4], "scope": scope, "ident": ident, "layout": f, "program": src,
                         "carve_out_classes": sorted(feats), "emitted": {ff: (extra or {}).get("text", {}).get(ff) for ff in reps} if extra else None,
                         "reproduce": (f"Compiler(ArchEnum.HEXAGON, CodeFormat.{f if f != 'both' else 'READ_STATEMENTS'}).compile_c_stmt({src!r})" if src else f"transform_insn({ident!r})")})

    # ---- replay of a single program --------------------------------------------------------------
    if replay:
        rp = json.load(open(replay))
        progs = [rp["program"]] if rp.get("program") else []
        items, gstats = textcheck.gen_run(0, 0, set(), extra_programs=progs)
        for it in items:
            if it["status"] == "ok":
                judge("generated", it["src"], set(rp.get("carve_out_classes", [])), it["report"], it["src"], it)
        rc.close_pool()
        for v in viol:
            res.violation(v)
        res.coverage.update({"evaluations": evals, "distinct_nontrivial": evals, "rule": "replay", "samples": progs})
        return res.finish(TB, f"cd lean && lake build RzilVerif.Props.{prop}")

    # witnesses of the listed known findings: must still fail the way the file says
    wit = [k for k in known_for(prop) if k.get("witness")]
    if wit:
        witems, _ = textcheck.gen_run(0, 0, set(), extra_programs=[k["witness"] for k in wit], rng_salt=99)  # run first: compilers are fresh here
        for k, it in zip(wit, witems):
            reproduced = False
            if it["status"] == "ok":
                for f, rep in it["report"].items():
                    probs = problems_for(prop, rep)
                    if prop == "C16":
                        probs = [] if rep.get("parsed") else ["text does not parse"]
                    if probs and all(re.search(k["signature_re"], p) for p in probs):
                        reproduced = True
            if reproduced:
                res.known(f"{k['id']}: {k['what']} [witness: {k['witness']}] ({k.get('site', '')})")
            else:
                res.notes.append(f"known finding {k['id']} no longer reproduces on its witness")

    # ---- corpus ------------------------------------------------------------------------------------
    records, per_fmt, cstats = textcheck.corpus_run(tier)
    by_part: dict = {}
    for r in records:
        t = r["tag"]
        if t[0] == "sub":
            if prop != "C16":
                judge("sub", t[1], set(), {t[2]: r["report"]})
            distinct.add(("sub", t[1]))
        else:
            by_part.setdefault((t[1], t[2]), {})[t[3]] = r["report"]
    for (name, part), reps in by_part.items():
        extra = {"meta": {f: per_fmt[f][name]["meta"][part] for f in reps}, "text": {f: per_fmt[f][name]["rzil"][part] for f in reps}}
        judge("corpus", name, set(), reps, None, extra)
        distinct.add(("part", name, part))
        if len(samples) < 2:
            samples.append({"corpus_part": [name, part], "denote": next(iter(reps.values())).get("denote", "")[:300]})
    # companion record (C11)
    rec_checked = 0
    if prop == "C11":
        getters = {}
        fmt0 = textcheck.FORMATS[0]
        for name, r in per_fmt[fmt0].items():
            if r["status"] != "ok":
                continue
            n = len(r["rzil"])
            for i in range(n):
                rep = by_part[(name, i)][fmt0]
                rec_checked += 1
                bad = []
                if rep.get("hi") and not r["needs_hi"][i]:
                    bad.append("text mentions hi but needs_hi is false")
                if rep.get("pkt") and not r["needs_pkt"][i]:
                    bad.append("text mentions pkt but needs_pkt is false")
                want = f"hex_il_op_{r['insn'].lower()}" + (f"_part{i}" if n > 1 else "")
                if r["getter"][i] != want or want not in r["getter_decl"][i]:
                    bad.append(f"getter name {r['getter'][i]!r}, expected {want!r}")
                if len(r["getter"]) != n or len(r["getter_decl"]) != n:
                    bad.append("not one getter per part")
                if r["getter"][i] in getters and getters[r["getter"][i]] != (name, i):
                    bad.append(f"getter name {r['getter'][i]} also used by {getters[r['getter'][i]]}")
                getters[r["getter"][i]] = (name, i)
                if bad:
                    viol.append({"what": bad, "scope": "corpus-record", "ident": name, "part": i})
        # sub-routine prologue: a body that mentions hi/pkt declares them (wfBody reports undeclared use)

    # ---- generated programs ------------------------------------------------------------------------
    n_clean, n_wild = (120, 120) if tier == "quick" else (1500, 1500)
    items, gstats = textcheck.gen_run(n_clean, n_wild, CLEAN_FORBIDDEN[prop], rng_salt=int(prop[1:]),
                                      extra_programs=REPEATS + DIVISIONS + (UNEVALUATED if prop in ("C10", "C11", "C12") else []) + (DEAD_CODE if prop == "C16" else []) + (DEAD_COMPOUND_ARMS + CONST_STORES if prop in ("C11", "C16", "C10") else []))
    # sub-routines whose compiled body sets a compiler temporary h_tmpN (flat namespace shared with callers)
    tmp_callees = [n for n, _, _, text in rc.sub_routine_defs(rc.compiler()) if 'SETL("h_tmp' in text]
    for it in items:
        if it["status"] != "ok":
            continue
        feats = set(it["features"])
        if any((c + "(") in it["src"] for c in tmp_callees):
            feats.add("callee_tmp")
        judge("generated", it["src"], feats, it["report"], it["src"], it)
        distinct.add(("gen", it["src"]))
        if len(samples) < 5 and it["stream"] == "clean":
            samples.append({"program": it["src"], "stream": it["stream"], "carve_out_classes": sorted(feats)})
    # ---- C16: HOW the two layouts are related.  Lean decides per output whether the READ_STATEMENTS text satisfies LayoutWF and
    # the EXEC_CLASSES text is its stable partition (pure declarations hoisted in front): then theorem layout_rel_sound gives the
    # equality of the denotations for every state; otherwise the per-output comparison of the two denotations above is the check.
    layout = {"pairs": 0, "wf": 0, "hoist_equal": 0, "equal_denotation_by_theorem": 0, "unparsed": 0}
    if prop == "C16":
        pairs = []
        for (name, part), reps in by_part.items():
            t_ = {f: per_fmt[f][name]["rzil"][part] for f in reps}
            if len(t_) == 2:
                pairs.append((f"{name} part {part}", t_, reps))
        for it in items:
            if it["status"] == "ok" and len(it.get("text", {})) == 2:
                pairs.append((it["src"], it["text"], it["report"]))
        f_rs, f_ec = textcheck.FORMATS
        from common import Driver
        lreps = Driver().run([sx(["layout-rel", Q(t_[f_rs]), Q(t_[f_ec])]) for _, t_, _ in pairs]) if pairs else []
        for (ident, t_, reps), lr in zip(pairs, lreps):
            d = parse_sx(lr)
            layout["pairs"] += 1
            fields = {x[0]: x[1] for x in d[1:] if isinstance(x, list) and len(x) == 2}
            if "error" in fields or d[0] != "layout-rel":
                layout["unparsed"] += 1
                continue
            wf, he = fields.get("wf") == "1", fields.get("hoist-equal") == "1"
            wfd, hed = fields.get("wf-dup") == "1", fields.get("hoist-equal-dup") == "1"
            layout["wf"] += wf
            layout["hoist_equal"] += he
            layout["hoist_equal_modulo_DUP"] = layout.get("hoist_equal_modulo_DUP", 0) + (wfd and hed)
            ped = fields.get("perm-equal-dup") == "1"
            layout["perm_equal_modulo_DUP"] = layout.get("perm_equal_modulo_DUP", 0) + ped
            pdd = fields.get("perm-equal-dead") == "1"
            layout["perm_equal_after_dropping_dead_declarations"] = layout.get("perm_equal_after_dropping_dead_declarations", 0) + pdd
            if (wf and he) or (wfd and hed) or ped or pdd:     # theorems layout_rel_sound / _dup / _perm / _dead
                layout["equal_denotation_by_theorem"] += 1
                dn = {f: r.get("denote") for f, r in reps.items()}
                if len(set(dn.values())) != 1:
                    # the theorem says the denotations are equal; the driver computed different ones: the driver contradicts itself
                    viol.append({"what": ["internal inconsistency: layout-rel accepts the pair (theorem layout_rel_sound) but the driver's two denotations differ"],
                                 "scope": "layout-rel", "ident": ident, "emitted": t_})
    # ---- C12: the heap model (Model/Heap.lean) run by Lean on every accepted text.  Theorem linear_no_double_free_no_leak says: an
    # empty report of the counting checker + distinct names => every node is consumed exactly once; the model's own verdict is
    # computed independently here and must agree (a text the checker accepts whose model run frees twice or leaks would
    # contradict the theorem: reported as an internal inconsistency)
    heap = {"texts": 0, "nodes": 0, "no_double_free_and_no_leak": 0, "double_free": 0, "leak": 0, "unparsed": 0}
    if prop == "C12":
        hl = []
        for (name, part), reps in by_part.items():
            f0 = textcheck.FORMATS[0]
            if f0 in reps:
                hl.append((f"{name} part {part}", per_fmt[f0][name]["rzil"][part], reps[f0]))
        for it in items:
            if it["status"] == "ok":
                f0 = textcheck.FORMATS[0]
                if f0 in it.get("text", {}):
                    hl.append((it["src"], it["text"][f0], it["report"][f0]))
        from common import Driver
        hreps = Driver().run([sx(["heap", Q(t_)]) for _, t_, _ in hl]) if hl else []
        for (ident, t_, rep), hr in zip(hl, hreps):
            d = parse_sx(hr)
            fields = {x[0]: x[1:] for x in d[1:] if isinstance(x, list) and x}
            heap["texts"] += 1
            if d[0] != "heap" or fields.get("parsed") != ["1"]:
                heap["unparsed"] += 1
                continue
            heap["nodes"] += int(fields["nodes"][0])
            ndf, nl = fields["no-double-free"] == ["1"], fields["no-leak"] == ["1"]
            heap["no_double_free_and_no_leak"] += (ndf and nl)
            heap["double_free"] += (not ndf)
            heap["leak"] += (not nl)
            checker_clean = not [p_ for p_ in rep.get("c12", []) if not p_.startswith("borrowed parameter")]
            if checker_clean and fields["distinct"] == ["1"] and not (ndf and nl):
                viol.append({"what": [f"internal inconsistency: the counting checker accepts the text but the heap model reports double free {fields.get('double')} / leak {fields.get('leaked')} (contradicts theorem linear_no_double_free_no_leak)"],
                             "scope": "heap-model", "ident": ident, "emitted": t_})
    proto_checked = 0
    if prop == "C12":
        proto_checked = read_protocol(viol)
    # ---- C11: companion records of generated / directed behaviours, and sub-routines registered through the API
    api_subs = 0
    if prop == "C11":
        rec_checked += records_of_programs([it["src"] for it in items if it["status"] == "ok"][:60], viol)
        rec_checked += alias_spellings(viol, seed())
    inl = 0
    if prop in ("C10", "C11", "C12"):
        api_subs = api_sub_routines(viol, prop)
        inl = inlining_settings(viol, prop)
    for k in known_for(prop):
        if k.get("scope") == "inlining-setting" and inl_known.get(k["id"]):
            res.known(f"{k['id']}: {k['what']} [{inl_known[k['id']]} directed programs of this run, e.g. {k['witness_text']}] ({k.get('site', '')})")
    for k in known_for(prop):
        if k.get("scope") == "corpus" and known_hit.get(k["id"]):
            res.known(f"{k['id']}: {k['what']} [corpus instruction {k['insn']}] ({k.get('site', '')})")
    rc.close_pool()

    def search():
        for v in viol[:5]:
            res.violation(v)
        return len(viol)

    ok = proof_gate(res, st, search)
    if ok:
        for v in viol[:5]:
            res.violation(v)
    res.coverage.update({
        "evaluations": evals,
        "distinct_nontrivial": len(distinct),
        "rule": "one evaluation = one accepted behaviour (corpus part / sub-routine / generated program) analysed by the Lean checker in both layouts; distinct = distinct (instruction, part) or distinct program text; non-trivial = accepted by the real compiler (emits code)",
        "exhaustive": tier == "thorough",
        "corpus": cstats,
        "generated": gstats,
        "companion_records_checked": rec_checked, "api_sub_routines_checked": api_subs, "layout_relation (C16)": layout, "heap_model (C12)": heap, "programs_under_other_inlining_settings": inl, "read_protocol_objects": proto_checked,
        "known_finding_hits": known_hit,
        "violations_total": len(viol),
        "samples": samples,
    })
    res.assumptions += [
        "rz-hexagon's headers are not available: 'valid C' is the declarations-with-initialiser subset parsed by Lean",
        "plugin macro sorts come from Resources/Hexagon/qemu_rzil_macros.json (regenerated into Gen/ResourcesGen.lean each run)",
    ]
    return res.finish(TB, f"cd lean && lake build RzilVerif.Props.{prop} && lake env lean .lake/audit/Audit_RzilVerif_Props_{prop}.lean")
