#!/usr/bin/env python3
"""One-off generator of the semantic known-finding entries (run by hand; known_findings.json is committed and
never written at check time)."""
import json, sys
sys.path.insert(0, "/verif/harness")
import gen
from semprops import var, reg, decl, wr, lit, T

one, two = ("lit", "1", 1, (True, 32)), ("lit", "2", 2, (True, 32))
W = {
 "shift-left-operand-unpromoted": (["narrow_shift"], [decl("uint16_t", "x", reg("RsV")), wr("RddV", ("shift", "<<", var("x", "uint16_t"), ("lit", "20", 20, (True, 32))))],
    "a shift keeps the width of its (unpromoted) left operand: `uint16_t x; x << 20` is computed at 16 bit", "rzilcompiler/Transformer/RZILTransformer.py:837-844"),
 "compare-operands-unpromoted": (["cmp_unpromoted", "ternary_unpromoted"], [decl("uint8_t", "a", reg("RsV")), decl("int8_t", "b", reg("RtV")), ("if", ("cmp", "<", var("a", "uint8_t"), var("b", "int8_t")), [wr("RdV", one)], [wr("RdV", two)])],
    "comparison / ?: operands are converted with c11_cast on the raw types, without integer promotion: `(uint8_t)a < (int8_t)b` is an unsigned 8-bit compare", "rzilcompiler/Transformer/RZILTransformer.py:938-945, 558"),
 "logical-result-typed-as-int": (["bool_as_int", "logic_mixed"], [wr("RdV", ("bin", "+", ("log", "&&", reg("RsV"), reg("RtV")), one))],
    "`&&`, `||`, `!` results are IL booleans but typed as their operand's integer type; comparison results keep the BOOL flag through c11_cast: used as integers they give ill-sorted terms (the IL gets stuck)", "rzilcompiler/Transformer/Pures/BooleanOp.py:16-23, rzilcompiler/Transformer/RZILTransformer.py:380-390"),
 "signed-source-zero-extended": (["signed_widen_to_unsigned"], [decl("int8_t", "a", reg("RsV")), wr("RddV", ("cast", "uint64_t", (False, 64), var("a", "int8_t")))],
    "Cast.il_exec uses the MSB as fill bit only if target AND source are signed: a signed source converted to a wider unsigned type is zero-extended (`(uint64_t)(int8_t)-1` gives 0xff)", "rzilcompiler/Transformer/Pures/Cast.py:13-18"),
 "compound-assignment-narrow-target": (["narrow_compound"], [decl("int16_t", "a", reg("RsV")), ("assign", var("a", "int16_t"), "+=", ("lit", "100000", 100000, (True, 32))), wr("RdV", var("a", "int16_t"))],
    "compound assignment truncates the right operand to the target type first and does not convert the promoted result back: `int16_t a; a += 100000` stores a 32-bit value in the 16-bit local", "rzilcompiler/Transformer/RZILTransformer.py:561-695"),
 "literal-typed-by-suffix-only": (["big_literal", "literal_cast"], [wr("RddV", lit("0x100000000"))],
    "a literal is typed by its suffix only: unsuffixed 0x100000000 / 4294967296 / 0xffffffff become st32 (`SN(32, 0x100000000)`), where C11 6.4.4.1 gives (unsigned) long", "rzilcompiler/Transformer/ValueType.py:322-349"),
 "folding-on-python-ints": (["fold_arith", "fold_unary", "fold_cmp"], [("if", ("cmp", "<", ("un", "-", lit("1")), lit("1U")), [wr("RdV", one)], [wr("RdV", two)])],
    "compile-time folding works on unbounded Python ints and ignores types: unary minus forces a signed type (`-1U`), folded comparisons compare the Python values (`-1 < 1U` is true), intermediate results do not wrap", "rzilcompiler/Transformer/RZILTransformer.py:1084-1188"),
 "constant-condition-drops-conversion": (["const_cond"], [wr("RddV", ("bin", "+", ("tern", one, reg("RsV"), lit("1ULL")), lit("0ULL")))],
    "a constant ?: condition returns the live arm as it is, without converting it to the common type of both arms (`1 ? RsV : 1ULL` stays 32-bit signed), and removes the dead arm's operand by name even if live code uses it", "rzilcompiler/Transformer/RZILTransformer.py:1190-1199"),
 "explicit-pair-typed-32-bit": (["explicit_pair"], [wr("RddV", ("bin", "&", ("reg", "R1:0", (True, 64)), one))],
    "an explicitly numbered register pair is typed 32 bit", "rzilcompiler/Transformer/RZILTransformer.py:300-314, rzilcompiler/Transformer/ValueType.py:288-307"),
 "assigned-explicit-register-read-as-new": (["explicit_rw_mixed"], [wr("RdV", ("reg", "P0", (True, 8))), ("assign", ("reg", "P0", (True, 8)), "=", reg("RsV"))],
    "an explicit/alias register that is assigned anywhere in a behaviour is read through READ_REG(.., true) everywhere, also before the assignment: `RdV = P0; P0 = RsV;` reads the not yet written .new value", "rzilcompiler/Transformer/Pures/Register.py:139-151,161-173"),
}
k = json.load(open("/verif/known_findings.json"))
k["findings"] = [f for f in k["findings"] if not f.get("generated_by_mkknown")]
for prop in ("C02", "C03", "C05", "C09", "C01"):
    for name, (feats, ast, what, site) in W.items():
        k["findings"].append({"id": f"{prop}-{name}", "property": prop, "scope": "generated", "feature_any": feats, "signature_re": ".",
                              "witness": gen.prog_src(ast), "witness_ast": json.dumps(ast), "what": what, "site": site, "generated_by_mkknown": True})
json.dump(k, open("/verif/known_findings.json", "w"), indent=1)
print(len(k["findings"]))
