#!/bin/sh
# usage: seedtest.sh <Cxx> <patch.diff> [tier]   — apply a seeded change to /repo, run the check, undo.
P=$1; PATCH=$2; TIER=${3:-quick}
cd /repo && git apply "$PATCH" || { echo "PATCH DOES NOT APPLY"; exit 3; }
cd /verif && ./check $P --tier $TIER 2>&1 | grep -v colorama | grep -v "^KNOWN" | tail -6
RC=$?
git -C /repo checkout -- . 
git -C /repo status --short | head -3
