"""C15 — nothing in the source is silently dropped: translate it or raise.

Lean: (1) the lowering model keeps one effect per statement, in order, and the final sequence drops only EMPTY()
(Props/C15.lean), (2) the list of grammar productions that reach the transformer without a callback, computed from the
REGENERATED grammar/callback tables and frozen by `decide`.
Correspondence / search: programs that place every construct the property names (and controls) at every statement and
expression position around supported code are compiled by the real compiler; a construct of the "must raise" class that
compiles is a violation (unless it is a listed known finding for exactly that construct); a construct that may be
translated must, when it compiles, have every write it performs present in the DENOTED tree Lean computes from the raw
text (reachable from `instruction_sequence`), and no declared effect may be left unreachable.
"""
from __future__ import annotations

import collections
import json
import re

import realcode as rc
import textcheck
import translate
from common import *  # noqa

TB = ["Lean 4.33 kernel; axioms propext, Classical.choice, Quot.sound (audited per theorem)",
      "translators harness/translate.py (grammar via Lark's loader, callbacks via Python ast)",
      "Lean tokenizer/parser of the emitted C text and `denoteIL` (what is reachable from the returned effect)",
      "the construct list below is the property's own enumeration (break, continue, goto, labels, comma, while/do/switch, unknown functions, pointer/array/member access) plus chained assignments"]

# statement contexts: {S} is replaced by the construct under test (a full statement)
STMT_CTX = {
    "after": "{ RdV = RsV; %s }",
    "before": "{ %s RdV = RsV; }",
    "in_if": "{ if (PuV) { %s } RdV = RsV; }",
    "in_else": "{ if (PuV) { RdV = RsV; } else { %s } }",
    "in_for": "{ for (i = 0; i < 2; i++) { %s } }",
    "nested_block": "{ RdV = RsV; { %s } }",
}
# expression contexts: %s is replaced by an expression
EXPR_CTX = {
    "assign_rhs": "{ ReV = %s; }",
    "decl_init": "{ int32_t v1 = %s; RdV = v1; }",
    "condition": "{ if (%s) { RdV = RsV; } }",
    "call_arg": "{ ReV = clz32(%s); }",
    "store_value": "{ EA = RsV; mem_store_u32(EA, %s); }",
    "ternary_arm": "{ ReV = (PuV ? %s : RsV); }",
}
W = 'WRITE_REG(bundle, %s_op'
# (id, class, statement text, what must be present in the denoted tree if it compiles)
STMTS = [
    ("break", "must_raise", "break;", []),
    ("continue", "must_raise", "continue;", []),
    ("goto", "must_raise", "goto done;", []),
    ("label", "must_raise", "done: ReV = RtV;", [W % "Re"]),
    ("while", "must_raise", "while (PvV) { ReV = RtV; }", [W % "Re"]),
    ("do_while", "must_raise", "do { ReV = RtV; } while (PvV);", [W % "Re"]),
    ("switch", "must_raise", "switch (RtV) { case 1: ReV = RtV; }", [W % "Re"]),
    ("comma_stmt", "must_raise", "ReV = RtV, RxV = RtV;", [W % "Re", W % "Rx"]),
    ("unknown_call_stmt", "must_raise", "frobnicate(RtV);", []),
    ("unknown_call0_stmt", "must_raise", "frobnicate();", []),
    ("array_decl", "must_raise", "int32_t arr[4];", []),
    ("struct_decl", "must_raise", "struct s x;", []),
    ("pointer_store", "must_raise", "*RtV = 1;", []),
    ("member_store", "must_raise", "RtV.f = 1;", []),
    # may be translated; if so, completely
    ("chain2", "must_accept", "ReV = RxV = RtV;", [W % "Re", W % "Rx"]),
    ("chain3", "may", "ReV = RxV = RyV = RtV;", [W % "Re", W % "Rx", W % "Ry"]),
    ("chain3_compound", "may", "ReV = RxV += RyV = 5;", [W % "Re", W % "Rx", W % "Ry"]),
    ("chain_postfix", "may", "ReV = RxV = i++;", [W % "Re", W % "Rx", 'SETL("i", INC']),
    ("chain_call", "may", "ReV = RxV = clz32(RtV);", [W % "Re", W % "Rx", "hex_clz32("]),
    ("postfix_stmt", "must_accept", "i++;", ['SETL("i", INC']),
    ("call_stmt", "must_accept", "clz32(RtV);", ["hex_clz32("]),
    ("store", "must_accept", "EA = RtV; mem_store_u16(EA, RsV);", ["STOREW("]),
    ("jump", "must_accept", "JUMP(RtV);", ['SETL("jump_target"']),
    ("cancel", "must_accept", "cancel_slot;", []),
    ("empty_stmt", "must_accept", ";", []),
    ("compound_assign", "must_accept", "RxV += RtV;", [W % "Rx"]),
    ("if_else", "must_accept", "if (PvV) { ReV = RtV; } else { RxV = RtV; }", [W % "Re", W % "Rx"]),
    ("for_loop", "must_accept", "for (j = 0; j < 3; j++) { RxV += RtV; }", [W % "Rx", "REPEAT("]),
    ("for_no_step", "may", "for (j = 0; j < 3; ) { RxV += RtV; }", [W % "Rx", "REPEAT("]),
    ("for_no_step_two_stmts", "may", "for (j = 0; j < 3; ) { RxV += RtV; ReV = RtV; j = j + 1; }", [W % "Rx", W % "Re", 'SETL("j"', "REPEAT("]),
    ("for_no_init", "may", "for (; j < 3; j++) { RxV += RtV; ReV = RtV; }", [W % "Rx", W % "Re", "REPEAT("]),
    ("for_two_stmts", "must_accept", "for (j = 0; j < 3; j++) { RxV += RtV; ReV = RtV; }", [W % "Rx", W % "Re", "REPEAT("]),
    ("nested_for", "must_accept", "for (j = 0; j < 3; j++) { for (k = 0; k < 2; k++) { RxV += RtV; } ReV = RtV; }", [W % "Rx", W % "Re", "REPEAT("]),
    ("if_in_if", "must_accept", "if (PvV) { if (RtV) { ReV = RtV; } RxV = RtV; } else { RyV = RtV; }", [W % "Re", W % "Rx", W % "Ry"]),
    ("stmt_expr", "must_accept", "ReV = ({ int32_t q = RtV; q; });", [W % "Re", 'SETL("q"']),
    ("void_call", "must_accept", "set_usr_field(bundle, HEX_REG_FIELD_USR_OVF, RtV);", ["hex_set_usr_field("]),
    ("void_call_postfix_arg", "must_accept", "trap(i++, 0);", ["hex_trap(", 'SETL("i", INC']),
    ("void_call_call_arg", "must_accept", "set_usr_field(bundle, HEX_REG_FIELD_USR_LPCFG, clz32(RtV));", ["hex_set_usr_field(", "hex_clz32("]),
    ("void_call_get_set", "must_accept", "set_usr_field(bundle, HEX_REG_FIELD_USR_LPCFG, get_usr_field(bundle, HEX_REG_FIELD_USR_LPCFG) - 1);",
     ["hex_set_usr_field(", "hex_get_usr_field("]),
    ("void_call_stmtexpr_arg", "must_accept", "set_usr_field(bundle, HEX_REG_FIELD_USR_OVF, ({ int32_t q = RtV; q; }));", ["hex_set_usr_field(", 'SETL("q"']),
    ("value_call_unused", "must_accept", "get_usr_field(bundle, HEX_REG_FIELD_USR_LPCFG);", ["hex_get_usr_field("]),
    ("stmt_expr_stmts_only3", "may", "({ ReV = 1; RxV = 2; RyV = 3; });", [W % "Re", W % "Rx", W % "Ry"]),
    ("stmt_expr_stmts_only4", "may", "({ ReV = 1; RxV = 2; RyV = 3; i++; });", [W % "Re", W % "Rx", W % "Ry", 'SETL("i", INC']),
    ("stmt_expr_stmts_only2", "may", "({ ReV = 1; RxV = 2; });", [W % "Re", W % "Rx"]),
    ("macro_stmt", "may", "HEX_SETROUND(hi, RZ_FLOAT_RMODE_RTZ);", ["HEX_SETROUND("]),
    ("ternary_void_calls", "may", "PvV ? trap(0, 1) : set_usr_field(bundle, HEX_REG_FIELD_USR_OVF, 1);", ["hex_trap(", "hex_set_usr_field("]),
    ("ternary_void_calls2", "may", "(RtV > 0) ? set_usr_field(bundle, HEX_REG_FIELD_USR_OVF, 1) : set_usr_field(bundle, HEX_REG_FIELD_USR_LPCFG, 0);", ["hex_set_usr_field("]),
    ("stmt_expr_three_stmts", "may", "ReV = ({ RxV = 1; RyV = 2; RtV; });", [W % "Re", W % "Rx", W % "Ry"]),
]
EXPRS = [
    ("comma_expr", "must_raise", "(RtV, RsV)", []),
    ("unknown_call", "must_raise", "frobnicate(RtV)", []),
    ("unknown_call0", "must_raise", "frobnicate()", []),
    ("array_access", "must_raise", "RtV[1]", []),
    ("member_access", "must_raise", "RtV.f", []),
    ("arrow_access", "must_raise", "RtV->f", []),
    ("deref", "must_raise", "*RtV", []),
    ("address_of", "must_raise", "&RtV", []),
    ("string_literal", "must_raise", '"abc"', []),
    ("assignment_in_expr", "may", "(RxV = RtV)", [W % "Rx"]),
    ("postfix_in_expr", "must_accept", "i++", ['SETL("i", INC']),
    # a side effect in an operand C always evaluates survives constant folding of the operator
    ("postfix_and_zero", "may", "(i++ && 0)", ['SETL("i", INC']),
    ("postfix_or_one", "may", "(i++ || 1)", ['SETL("i", INC']),
    ("call_and_zero", "may", "(clz32(RtV) && 0)", ["hex_clz32("]),
    ("postfix_times_zero", "may", "(i++ * 0)", ['SETL("i", INC']),
    ("postfix_in_const_ternary_cond", "may", "((i++ , 1) ? RsV : RtV)", ['SETL("i", INC']),
    ("postfix_ternary_cond", "must_accept", "(i++ ? RsV : RtV)", ['SETL("i", INC']),
    ("postfix_cmp", "must_accept", "(i-- < 3)", ['SETL("i", DEC']),
    ("postfix_in_cast", "must_accept", "((int64_t)i++)", ['SETL("i", INC']),
    ("postfix_in_not", "must_accept", "(!i++)", ['SETL("i", INC']),
    ("two_calls", "must_accept", "(clz32(RtV) + clo32(RsV))", ["hex_clz32(", "hex_clo32("]),
    ("call_in_expr", "must_accept", "clz32(RtV)", ["hex_clz32("]),
    ("stmt_expr_in_expr", "must_accept", "({ int32_t q = RtV; q; })", ['SETL("q"']),
    ("load_in_expr", "must_accept", "((int32_t)mem_load_s32(EA))", ["LOADW("]),
]


# a behaviour may call a local like one of the transformer's own intermediate values: nothing may vanish then
NAME_PROGS = [
    ("if_else", "{ int32_t %(n)s = 5; if (PuV) { RdV = RsV; } else { ReV = RtV; } RxV = %(n)s; }", [W % "Rd", W % "Re", W % "Rx", "BRANCH("]),
    ("ternary", "{ int32_t %(n)s = 5; ReV = (PuV ? %(n)s : RtV); }", [W % "Re", "ITE("]),
    ("for_loop", "{ int32_t %(n)s = 5; for (i = 0; i < 2; i++) { RxV += %(n)s; } }", [W % "Rx", "REPEAT("]),
    ("arith_cast_store", "{ int32_t %(n)s = 5; RdV = (%(n)s + RsV) & RtV; ReV = ((int8_t)%(n)s) << 2; EA = RsV; mem_store_u32(EA, %(n)s); }",
     [W % "Rd", W % "Re", "ADD(", "LOGAND(", "SHIFTL0(", "STOREW("]),
    ("hybrids", "{ int32_t %(n)s = 5; i++; RdV = clz32(%(n)s); ReV = ({ int32_t q = %(n)s; q; }); }",
     [W % "Rd", W % "Re", 'SETL("i", INC', "hex_clz32(", 'SETL("q"']),
    ("empty_arm", "{ int32_t %(n)s = 5; if (PuV) { } else { RdV = %(n)s; } cancel_slot; }", [W % "Rd", "BRANCH("]),
]
FEATURE_PROGS = [p_[1] % {"n": "v1"} for p_ in NAME_PROGS] + ["{ RdV = (RsV < RtV) ? -RsV : ~RtV; JUMP(RsV); RxV = RsV * 3 - riV; ReV = (RsV == 1) || (RtV != 2); }"]


def op_base_names(texts):
    """base names (numeric suffix stripped) of the C variables the compiler declares for its own ops"""
    out = set()
    for t in texts:
        for m in re.finditer(r"RzILOp(?:Pure|Effect) \*(\w+?)_\d+ =", t):
            out.add(m.group(1))
    return out


def probes():
    out = []
    for cid, cls, text, must in STMTS:
        for pid, ctx in STMT_CTX.items():
            if cid in ("break", "continue") and pid != "in_for":
                # outside a loop these are not C; inside the loop body is the position the property means
                pass
            src = ctx % text
            extra = ['WRITE_REG(bundle, Rd_op'] if "RdV = RsV" in ctx else []
            out.append({"construct": cid, "class": cls, "position": pid, "src": src, "must": must + extra})
    for cid, cls, text, must in EXPRS:
        for pid, ctx in EXPR_CTX.items():
            src = ctx % text
            if pid == "condition" and cid in ("load_in_expr",):
                src = "{ EA = RsV; if (%s) { RdV = RsV; } }" % text
            elif cid == "load_in_expr" and "EA" not in ctx:
                src = "{ EA = RsV; " + src[2:]
            out.append({"construct": cid, "class": cls, "position": pid, "src": src, "must": list(must)})
    return out


def known_construct(cid, pos, what):
    for k in known_for("C15"):
        if k.get("scope") == "construct" and cid in k["constructs"] and re.search(k.get("signature_re", "."), what) \
                and (not k.get("positions") or pos in k["positions"]):
            return k
    return None


def run(tier, replay=None):
    res = Result("C15", tier)
    st = prepare("C15", translate=translate.run_all)
    res.proof = st
    use_repo()
    ps = probes()
    # op names harvested from what the compiler emits now (plus the fixed ones of Empty/NOP)
    c0 = rc.compiler("READ_STATEMENTS")
    texts = []
    for pr in rc.parse_programs(FEATURE_PROGS):
        if pr[0] == "ok":
            r0 = rc.transform_tree(c0, pr[1])
            if r0[0] == "ok":
                texts.append(r0[1])
    names = sorted(op_base_names(texts) | {"empty", "nop", "cond", "branch", "seq"})
    for n in names:
        for pid, prog, must in NAME_PROGS:
            ps.append({"construct": "local_named_like_an_op", "class": "may", "position": f"{n}/{pid}", "src": prog % {"n": n},
                       "must": must + ['SETL("%s"' % n]})
    if replay:
        rp = json.load(open(replay))
        if "program" in rp:
            ps = [p for p in ps if p["src"] == rp["program"]] or [{"construct": rp.get("construct", "?"), "class": rp.get("class", "must_raise"), "position": "?", "src": rp["program"], "must": rp.get("must", [])}]
    parsed = rc.parse_programs([p["src"] for p in ps])
    rc.close_pool()
    viol, cnt = [], collections.Counter()
    table = collections.defaultdict(collections.Counter)
    known_hits = collections.Counter()
    from rzilcompiler.Parser import ParsedInsn

    def via_transform_insn(c, tree, src):
        """the other public entry point: one instruction name asked for again and again with short-lived parse results"""
        try:
            with rc.quiet():
                ri = c.transform_insn("GEN_c15", ParsedInsn("GEN_c15", [tree], [src]))
            return ("ok", ri.rzil[0], None)
        except Exception as e:
            inner = getattr(e, "orig_exc", e)
            return ("exc", type(inner).__name__, str(inner)[:160])

    LAYOUTS = ("READ_STATEMENTS", "EXEC_CLASSES", "TRANSFORM_INSN")
    for fmt in LAYOUTS:
        c = rc.compiler(fmt) if fmt != "TRANSFORM_INSN" else rc.compiler("READ_STATEMENTS", fresh=True)
        todo = []
        for p, pr in zip(ps, parsed):
            if pr[0] != "ok":
                p[fmt] = ("rejected", "parse: " + pr[1])
                continue
            r = rc.transform_tree(c, pr[1]) if fmt != "TRANSFORM_INSN" else via_transform_insn(c, pr[1], p["src"])
            if r[0] != "ok":
                p[fmt] = ("rejected", f"{r[1]}: {r[2]}")
            else:
                p[fmt] = ("accepted", r[1])
                todo.append(p)
        reps = Driver().run([sx(["text", Q(p[fmt][1])]) for p in todo])
        for p, rep in zip(todo, reps):
            p[fmt + "_report"] = textcheck.parse_report(rep)
    for p in ps:
        for fmt in LAYOUTS:
            outcome, detail = p[fmt]
            cnt["evaluations"] += 1
            table[p["construct"]][outcome] += 1
            problems = []
            if outcome == "rejected":
                if p["class"] == "must_accept":
                    problems.append(f"supported construct is rejected ({detail})")
            else:
                rep = p[fmt + "_report"]
                den = rep.get("denote") or ""
                if p["class"] == "must_raise":
                    missing = [m for m in p["must"] if m not in den]
                    problems.append("an unsupported construct compiles without an exception" +
                                    (f"; its effects {missing} are absent from the returned effect" if missing else "; (its writes are present)"))
                else:
                    if not rep.get("parsed"):
                        problems.append("emitted text unreadable")
                    missing = [m for m in p["must"] if m not in den]
                    if missing:
                        problems.append(f"compiles, but {missing} is not reachable from the returned effect (silently dropped)")
                    unreach = [x for x in rep.get("c12", []) if re.search(r"^effect \w+ is initialised but never used", x)]
                    if unreach and missing:
                        problems.append(f"declared but never sequenced: {unreach[:3]}")
            if not problems:
                continue
            what = f"{p['construct']} at {p['position']} [{fmt}]: " + "; ".join(problems)
            k = known_construct(p["construct"], p["position"], what)
            if k:
                known_hits[k["id"]] += 1
                continue
            viol.append({"what": what, "program": p["src"], "construct": p["construct"], "class": p["class"], "must": p["must"],
                         "emitted": detail if outcome == "accepted" else None,
                         "reproduce": (f"Compiler(ArchEnum.HEXAGON, CodeFormat.{fmt}).compile_c_stmt({p['src']!r})" if fmt != "TRANSFORM_INSN" else
                                       f"one Compiler: transform_insn('GEN_c15', ParsedInsn('GEN_c15', [parser.parse(src)], [src])) for every placement of the run in order, this one is {p['src']!r}")})
    for k in known_for("C15"):
        if k.get("scope") == "construct":
            if known_hits[k["id"]]:
                res.known(f"{k['id']}: {k['what']} [{known_hits[k['id']]} placements of this run, e.g. {k['witness']}] ({k['site']})")
            else:
                res.notes.append(f"known finding {k['id']} no longer reproduces")

    def search():
        for v in viol[:6]:
            res.violation(v)
        return len(viol)

    if proof_gate(res, st, search):
        for v in viol[:6]:
            res.violation(v)
    if os.environ.get("VERIF_DEBUG"):
        json.dump(viol, open("/tmp/c15_viol.json", "w"), indent=1, default=str)
    res.coverage.update({
        "evaluations": cnt["evaluations"], "distinct_nontrivial": len(ps),
        "rule": "one evaluation = one (construct, position, layout) program compiled by the real compiler; accepted outputs are parsed and denoted by Lean and the writes the construct performs are looked up in the denoted tree; distinct = (construct, position) programs",
        "constructs": {k: dict(v) for k, v in table.items()}, "positions": sorted(set(STMT_CTX) | set(EXPR_CTX)),
        "violations_total": len(viol), "known_hits": dict(known_hits),
        "samples": [{"program": p["src"], "outcome": p["READ_STATEMENTS"][0], "class": p["class"]} for p in ps[:4]],
    })
    res.assumptions += ["'represented' for accepted programs is judged on the writes each construct performs (register writes, local sets, stores, calls) being reachable in the denoted tree; the complete tree comparison for the supported dialect is done by C05/C06",
                        "constructs outside the property's enumeration are covered only through the frozen no-callback table"]
    return res.finish(TB, "cd lean && lake build RzilVerif.Props.C15")
