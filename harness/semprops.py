"""C02 / C03 / C05 / C09: semantic properties of the lowering, decided by theorems about the lowering model
(lean/RzilVerif/Model/Compile.lean) + the tie 'real denoted tree == model tree' + the failing-input search
'execute the C program and the REAL effect on sampled states' (both done by Lean, DriverSem.lean)."""
from __future__ import annotations

import collections
import random

from common import *  # noqa
import gen
import realcode as rc
import semcheck
import textcheck
import translate

T = dict(gen.INT_TYPES)
TN = [n for n, _ in gen.INT_TYPES]
SEM_FEATURES = {"signed_widen_to_unsigned", "narrow_shift", "cmp_unpromoted", "ternary_unpromoted", "bool_as_int", "logic_mixed",
                "narrow_compound", "big_literal", "fold_arith", "fold_unary", "fold_cmp", "const_cond", "literal_cast", "explicit_pair",
                "explicit_rw_mixed", "loop_may_not_terminate", "y_reg_unread"}
HYB_DEFECT_FEATURES = {"hybrid_in_ternary_arm", "hybrid_in_logic_rhs", "unused_hybrid", "call_in_loop_cond", "stmtexpr_arm_fresh_local", "callee_tmp"}
NOT_JUDGED = {"unsequenced_interference", "loop_var_modified_in_body"}   # C leaves these undefined / unspecified
TB = [
    "Lean 4.33 kernel; axioms propext, Classical.choice, Quot.sound (audited per theorem)",
    "C side: Model/CSem.lean (C11 integer semantics with QEMU conventions, DESIGN 3.1); IL side: Model/ILSem.lean (RzIL + plugin macro contract, DESIGN 3.2) — the specification, modelled not verified",
    "lowering model Model/Compile.lean, tied to the code by comparing its tree with the denoted tree of the real output on every run",
    "harness: program generator and its carve-out classifier (harness/gen.py), AST -> S-expression, sampled states (boundary + pseudo-random) generated inside Lean",
]


def var(n, t):
    return ("var", n, T[t] if isinstance(t, str) else t)


def reg(n):
    return ("reg", n, dict(gen.SRC_REGS + gen.DEST_REGS + gen.RW_REGS + gen.NEW_REGS)[n])


def decl(t, n, e):
    return ("decl", t, T[t], n, e)


def wr(r, e):
    return ("assign", reg(r), "=", e)


def lit(txt):
    body = txt.rstrip("uUlL")
    v = int(body, 16) if body.lower().startswith("0x") else int(body)
    sfx = txt[len(body):].upper()
    return ("lit", txt, v, (sfx in ("", "LL"), 64 if "LL" in sfx else 32))


def two_operands(t1, t2):
    return [decl(t1, "a", ("cast", t1, T[t1], reg("RssV"))), decl(t2, "b", ("cast", t2, T[t2], reg("RttV")))]


def folding_history():
    """compiled before everything else on the same compiler: folded literal expressions under a unary operator (a type object
    that is shared or cached between compilations and modified by constant folding changes what is compiled afterwards)"""
    L = lambda txt: lit(txt)
    t64 = ("var", "t", (True, 64))
    hist = []
    for e in (("un", "-", ("bin", "+", L("1U"), L("2"))), ("un", "-", ("bin", "*", L("6"), L("2U"))), ("un", "-", ("bin", "+", L("1ULL"), L("1U"))),
              ("un", "-", L("4U")), ("un", "-", L("4ULL")), ("un", "~", ("bin", "+", L("1"), L("1U"))), ("un", "-", ("bin", "+", L("1LL"), L("1U")))):
        hist.append([("decl", "int64_t", (True, 64), "t", None), ("assign", t64, "=", e), wr("RddV", t64)])
    hist.append([wr("RdV", ("bin", "&", reg("RsV"), ("un", "-", L("4U"))))])
    return hist


def programs_C02(rng, tier):
    out = folding_history()
    for t1 in TN:
        for t2 in TN:
            pre = two_operands(t1, t2)
            a, b = var("a", t1), var("b", t2)
            for op in gen.BINOPS:
                out.append(pre + [wr("RddV", ("bin", op, a, b))])
            for op in ("<<", ">>"):
                out.append(pre + [wr("RddV", ("shift", op, a, ("bin", "&", b, ("lit", "7", 7, (True, 32)))))])
            for op in gen.CMPS:
                out.append(pre + [("if", ("cmp", op, a, b), [wr("RdV", ("lit", "1", 1, (True, 32)))], [wr("RdV", ("lit", "2", 2, (True, 32)))])])
                out.append(pre + [wr("RddV", ("cast", "int64_t", (True, 64), ("cmp", op, a, b)))])
            for op in ("&&", "||"):
                out.append(pre + [("if", ("log", op, a, b), [wr("RdV", ("lit", "1", 1, (True, 32)))], None)])
            out.append(pre + [wr("RddV", ("tern", reg("PuV"), a, b))])
            # a unary operator directly as an operand of + and - (the negation is done in the operand's own promoted type first)
            for uop in ("-", "~"):
                for op in ("+", "-"):
                    out.append(pre + [wr("RddV", ("bin", op, a, ("un", uop, b)))])
                out.append(pre + [wr("RddV", ("bin", "-", ("un", uop, a), b))])
        a = var("a", t1)
        pre = [decl(t1, "a", ("cast", t1, T[t1], reg("RssV")))]
        for op in ("-", "~"):
            out.append(pre + [wr("RddV", ("un", op, a))])
        out.append(pre + [("if", ("not", a), [wr("RdV", ("lit", "1", 1, (True, 32)))], None)])
    if tier == "quick":
        rng.shuffle(out)
        out = out[:420]
    return out


def conversion_sites_C03():
    """conversion sites beyond declarations/assignments: loaded values, arguments of sub-routines and macros, return values"""
    out = []
    ea = ("assign", ("var", "EA", (False, 32)), "=", reg("RsV"))
    for w in (8, 16, 32, 64):
        for sg in ("s", "u"):
            for t in TN:
                ld = ("load", t, T[t], sg, w)
                out.append([ea, decl(t, "b", ld), wr("RddV", var("b", t))])
                out.append([ea, wr("RddV", ld)])
    for name, pts, rt in gen.CALLS:
        for t1 in TN:
            a = var("a", t1)
            pre = [decl(t1, "a", ("cast", t1, T[t1], reg("RssV")))]
            args = [a] + [("bin", "&", reg("RvV"), ("lit", "15", 15, (True, 32)))] * (len(pts) - 1)
            for t2 in ("int64_t", "uint64_t", "int16_t", "uint8_t"):
                out.append(pre + [decl(t2, "r", ("call", name, args, rt)), wr("RddV", var("r", t2))])           # argument + return into T2
            out.append(pre + [wr("RddV", ("call", name, args, rt))])
    for t1 in TN:
        a = var("a", t1)
        pre = [decl(t1, "a", ("cast", t1, T[t1], reg("RssV")))]
        out.append(pre + [wr("RddV", ("macro", "sextract64", [a, ("lit", "0", 0, (True, 32)), ("lit", "8", 8, (True, 32))], (True, 64)))])
        out.append(pre + [wr("RddV", ("macro", "extract64", [a, ("lit", "4", 4, (True, 32)), ("lit", "12", 12, (True, 32))], (False, 64)))])
        out.append(pre + [("vcall", "set_usr_field", ["bundle", "HEX_REG_FIELD_USR_LPCFG"], [a]),
                          wr("RdV", ("callx", "get_usr_field", ["bundle", "HEX_REG_FIELD_USR_LPCFG"], [], (False, 32)))])
    # the value of a macro handed on DIRECTLY as an argument of a routine / of another macro whose parameter has another width
    # or signedness (narrowing must happen, a uint32_t result is zero-extended into a 64-bit parameter)
    L = lambda k: ("lit", str(k), k, (True, 32))
    ex64 = lambda x, a_, n_: ("macro", "extract64", [x, L(a_), L(n_)], (False, 64))
    sx64 = lambda x, a_, n_: ("macro", "sextract64", [x, L(a_), L(n_)], (True, 64))
    bs32 = lambda x: ("macro", "bswap32", [x], (False, 32))
    for inner in (ex64(reg("RssV"), 8, 40), sx64(reg("RssV"), 8, 40), sx64(reg("RssV"), 24, 9)):
        for name in ("clz32", "clo32", "revbit32", "fbrev"):
            out.append([wr("RddV", call(name, inner))])
        out.append([wr("RddV", ("macro", "extract32", [inner, L(0), L(8)], (False, 32)))])
        out.append([wr("RddV", bs32(inner))])
    for inner in (bs32(reg("RsV")), ("macro", "extract32", [reg("RsV"), L(4), L(28)], (False, 32))):
        for name in ("clz64", "clo64"):
            out.append([wr("RddV", call(name, inner))])
        out.append([wr("RddV", sx64(inner, 0, 40))])
        out.append([wr("RddV", ex64(inner, 0, 40))])
        out.append([wr("RddV", ("macro", "bswap64", [inner], (False, 64)))])
        out.append([wr("RddV", ("macro", "bswap16", [inner], (False, 16)))])
    return out


def programs_C03(rng, tier):
    out = []
    for t1 in TN:
        for t2 in TN:
            a = var("a", t1)
            pre = [decl(t1, "a", ("cast", t1, T[t1], reg("RssV")))]
            out.append(pre + [decl(t2, "b", a), wr("RddV", var("b", t2))])                       # initialisation
            out.append(pre + [("decl", t2, T[t2], "b", None), ("assign", var("b", t2), "=", a), wr("RddV", var("b", t2))])   # assignment
            out.append(pre + [wr("RddV", ("cast", t2, T[t2], a))])                                 # explicit cast + register write
            out.append(pre + [("store", T[t2][1], None, a)])                                       # memory store
            # chained assignment: a = b = x  is  (T1)(T2)x
            out.append([("decl", t2, T[t2], "b", None), ("decl", t1, T[t1], "a2", None),
                        ("chain", var("a2", t1), var("b", t2), rng.choice(["=", "=", "+="]) if T[t2][1] >= 32 else "=", reg("RssV")),
                        wr("RddV", var("a2", t1))])
            for t3 in rng.sample(TN, 2):
                out.append(pre + [wr("RddV", ("cast", t3, T[t3], ("cast", t2, T[t2], a)))])       # chains
        a = var("a", t1)
        pre = [decl(t1, "a", ("cast", t1, T[t1], reg("RssV")))]
        out.append(pre + [wr("RdV", a)]); out.append(pre + [wr("PdV", a)]); out.append(pre + [wr("RddV", a)])    # register writes
        out.append(pre + [("jump", a)])                                                            # jump target
        out.append(pre + [wr("RddV", ("macro", "sextract64", [a, ("lit", "0", 0, (True, 32)), ("lit", "8", 8, (True, 32))], (True, 64)))])  # argument
        # boolean source
        out.append(pre + [decl("int64_t", "c", ("cmp", "<", a, reg("RsV"))), wr("RddV", var("c", "int64_t"))])
        out.append(pre + [wr("RddV", ("cast", "uint8_t", T["uint8_t"], ("cmp", "==", a, reg("RsV"))))])
    for p in out:
        if any(s[0] == "store" for s in p):
            p.insert(0, ("assign", ("var", "EA", (False, 32)), "=", reg("RsV")))
    if tier == "quick":
        rng.shuffle(out)
        out = out[:420]
    return out


LITS = ["0", "1", "127", "128", "255", "256", "32767", "32768", "65535", "65536", "2147483647", "2147483648", "4294967295", "4294967296",
        "0x7f", "0x80", "0xff", "0x7fff", "0x8000", "0xffff", "0x7fffffff", "0x80000000", "0xffffffff", "0x100000000",
        "0x7fffffffffffffff", "0x8000000000000000", "0xffffffffffffffff", "9223372036854775807"]
SFX = ["", "U", "LL", "ULL", "u", "ull"]


def programs_C09(rng, tier):
    out = folding_history()
    # literals of every suffix after that history: their types are those of their spelling
    for txt in ("0x80000000U", "0xffffffffU", "5U", "0x8000000000000000ULL", "5ULL", "0x80000000", "3000000000"):
        out.append([wr("RddV", lit(txt))])
        out.append([wr("RdV", ("cmp", ">", lit(txt), reg("RsV")))])
        out.append([wr("RddV", ("bin", "+", reg("RssV"), lit(txt)))])
    lits = [lit(l + s) for l in LITS for s in SFX]
    n = 300 if tier == "quick" else 3000
    one = ("lit", "1", 1, (True, 32))
    for _ in range(n):
        a, b = rng.choice(lits), rng.choice(lits)
        k = rng.random()
        if k < 0.3:
            out.append([wr("RddV", ("bin", rng.choice(["+", "-", "*"]), a, b))])
        elif k < 0.45:
            out.append([wr("RddV", ("un", rng.choice(["-", "~"]), a))])
        elif k < 0.65:
            out.append([("if", ("cmp", rng.choice(gen.CMPS), a, b), [wr("RdV", one)], [wr("RdV", ("lit", "2", 2, (True, 32)))])])
        elif k < 0.8:
            out.append([wr("RddV", ("tern", a, reg("RsV"), rng.choice([reg("RttV"), b])))])
        elif k < 0.9:
            out.append([wr("RddV", a)])
        else:
            # metamorphic shape: the same operation with the literal routed through a local (nothing folds)
            out.append([("decl", "int64_t", (True, 64), "t", a), wr("RddV", ("bin", "+", var("t", "int64_t"), b))])
    # sizeof directly next to a use of its own operand: the operand stays declared and is read where it is used
    for opnd, w, big in (("RsV", 32, False), ("RtV", 32, False), ("RssV", 64, True), ("PuV", 8, False)):
        o_ = ("imm", opnd, (True, 32)) if opnd == "siV" else reg(opnd)
        sz = ("lit", f"sizeof({opnd})", (w + 7) // 8, (True, 32))
        dst = "RddV" if big else "RdV"
        out.append([wr(dst, ("bin", "+", o_, sz))])
        out.append([wr(dst, ("bin", "+", sz, o_))])
        out.append([wr("RdV", ("cmp", "<", o_, sz))])
        out.append([wr(dst, ("bin", "*", sz, ("bin", "+", o_, sz)))])
    out.append([("assign", reg("RxV"), "+=", ("lit", "sizeof(RxV)", 4, (True, 32)))])
    out.append([("assign", reg("RxxV"), "+=", ("lit", "sizeof(RxxV)", 8, (True, 32)))])
    # sizeof: a compile-time constant, ceil(width / 8) of its operand's own (unpromoted) type
    for opnd, w in (("PuV", 8), ("RsV", 32), ("RssV", 64), ("CsV", 32), ("NsN", 32)):     # not an immediate: its operand object would register an imm_assign the literal cannot carry
        sz = ("lit", f"sizeof({opnd})", (w + 7) // 8, (True, 32))
        out.append([wr("RddV", ("bin", "*", sz, ("lit", "8", 8, (True, 32))))])
        out.append([wr("RdV", ("tern", ("cmp", "==", sz, one), reg("RsV"), reg("RtV")))])
        out.append([wr("RdV", ("tern", ("cmp", ">=", ("imm", "uiV", (False, 32)), ("bin", "*", sz, ("lit", "8", 8, (True, 32)))), ("lit", "0", 0, (True, 32)), reg("RtV")))])
    for t in TN:
        sz = ("lit", "sizeof(a)", T[t][1] // 8, (True, 32))
        out.append([decl(t, "a", ("cast", t, T[t], reg("RssV"))), wr("RddV", ("bin", "+", sz, var("a", t)))])
        out.append([decl(t, "a", ("cast", t, T[t], reg("RssV"))), wr("RdV", ("tern", ("cmp", "<", sz, ("lit", "4", 4, (True, 32))), reg("RsV"), reg("RtV")))])
    # conditions that are conversions of literals: whatever is decided at compile time must apply the conversion first
    for txt in ("0x100", "0x10000", "0x100000000LL", "0x30000", "0xff00", "0x180", "0x80", "256", "65536", "1", "0"):
        for ts in (["int8_t"], ["uint8_t"], ["int16_t"], ["uint16_t"], ["uint32_t"], ["int64_t", "uint16_t"], ["int32_t", "int8_t"], ["uint64_t", "uint8_t"]):
            c = lit(txt)
            for t in reversed(ts):
                c = ("cast", t, T[t], c)
            out.append([wr("RdV", ("tern", c, reg("RsV"), reg("RtV")))])
            if rng.random() < 0.3:
                out.append([("if", c, [wr("RdV", one)], [wr("RdV", ("lit", "2", 2, (True, 32)))])])
                out.append([("if", ("not", c), [wr("RdV", one)], [wr("RdV", ("lit", "2", 2, (True, 32)))])])
    return out


def _c_lit_type(txt):
    """C11 6.4.4.1 type of an integer constant (int = 32 bit, long long = 64 bit); mirrors Lean's litTypeC"""
    body, sfx = txt, ""
    while body and body[-1] in "uUlL":
        sfx = body[-1].upper() + sfx
        body = body[:-1]
    hexa = body.lower().startswith("0x")
    v = int(body, 16 if hexa else 10)
    if sfx == "":
        t = (True, 32) if v < 2 ** 31 else (False, 32) if hexa and v < 2 ** 32 else (True, 64) if v < 2 ** 63 else (False, 64)
    elif sfx == "U":
        t = (False, 32) if v < 2 ** 32 else (False, 64)
    elif sfx == "LL":
        t = (True, 64) if v < 2 ** 63 else (False, 64)
    else:
        t = (False, 64)
    return v, t


def _c_common(a, b):
    if a[0] == b[0]:
        return (a[0], max(a[1], b[1]))
    sg, us = (a, b) if a[0] else (b, a)
    return (False, us[1]) if us[1] >= sg[1] else (True, sg[1])


def _as_type(v, t):
    v %= 2 ** t[1]
    return v - 2 ** t[1] if t[0] and v >= 2 ** (t[1] - 1) else v


DIV_PAIRS = [("6", "3"), ("7", "2"), ("1", "0"), ("0", "0ULL"), ("100", "7"), ("0xFFFFFFFFFFFFFFFFULL", "2ULL"), ("0x7FFFFFFFFFFFFFFFLL", "1LL"),
             ("0x8000000000000001ULL", "3"), ("9007199254740993LL", "1"), ("9007199254740993LL", "3LL"), ("0xFFFFFFFF", "0x10"),
             ("4294967295U", "5"), ("0x100000000LL", "0x10"), ("18446744073709551615ULL", "18446744073709551615ULL"),
             ("0x7FFFFFFFFFFFFFFFLL", "0x7FFFFFFFFFFFFFFELL"), ("1000000007", "1000003"), ("0x20000000000001LL", "2")]


def division_items():
    """`RddV = a / b;` on literals (C09: fold exactly or reject). The C side of each item is the literal C11 prescribes;
    a zero divisor has no C value: compiling it at all is the violation."""
    out = []
    for op in ("/", "%"):
        for a, b in DIV_PAIRS:
            (va, ta), (vb, tb) = _c_lit_type(a), _c_lit_type(b)
            t = _c_common(ta, tb)
            x, y = _as_type(va, t), _as_type(vb, t)
            src = "{ RddV = (%s %s %s); }" % (a, op, b)
            if y == 0:
                out.append({"ast": None, "src": src, "features": set(), "must_reject": "division by a zero constant"})
                continue
            q = abs(x) // abs(y) * (1 if (x >= 0) == (y >= 0) else -1)
            r = q if op == "/" else x - q * y
            pat = _as_type(r, t) % 2 ** 64       # converted to the 64-bit destination (sign-extended iff t is signed)
            out.append({"ast": [wr("RddV", ("lit", hex(pat) + "ULL", pat, (False, 64)))], "src": src, "features": set(), "no_tie": True})
    return out


def stream_generated(rng, n_clean, n_wild, cfg):
    g = gen.Gen(rng, cfg)
    forb = (SEM_FEATURES | gen.SORT_FEATURES | gen.TEXT_FEATURES | HYB_DEFECT_FEATURES | NOT_JUDGED) - {"stmt_expr_bare"}
    return [g.clean_program(forb) for _ in range(n_clean)] + [g.program() for _ in range(n_wild)]


def call(name, *args):
    sig = {c[0]: c for c in gen.CALLS}[name]
    return ("call", name, list(args), sig[2])


def programs_C05(rng, tier):
    """directed loops whose condition is NOT loop-invariant (C re-evaluates it before every iteration), nested
    conditions, and assignments in both arms"""
    out = []
    L = lambda v: ("lit", str(v), v, (True, 32))
    iv = ("var", "i", (False, 32))
    u32, i32 = T["uint32_t"], T["int32_t"]
    n_u, n_i = var("n", "uint32_t"), var("n", "int32_t")
    acc = wr("RxV", ("bin", "+", reg("RxV"), L(1)), )
    for src in (reg("RsV"), reg("RtV")):
        m = ("bin", "&", src, L(15))
        out.append([decl("uint32_t", "n", m), ("for", "i", ("bin", "-", n_u, iv), [acc])])                                   # i < n - i
        out.append([decl("int32_t", "n", m), ("for", "i", n_i, [("assign", n_i, "-=", L(1)), acc])])                           # body lowers the bound
        out.append([decl("uint32_t", "n", m), ("for", "i", ("shift", ">>", n_u, L(1)), [acc, ("assign", n_u, "=", ("bin", "-", n_u, L(1)))])])
        out.append([decl("uint32_t", "n", m), ("for", "i", n_u, [("if", ("cmp", "==", iv, L(2)), [("assign", n_u, "=", L(0))], None), acc])])   # early exit
        out.append([decl("uint32_t", "n", m), ("for", "i", n_u, [acc], None, 2), wr("RdV", iv)])                             # i += 2, counter read afterwards
        out.append([decl("uint32_t", "n", m), ("for", "i", ("bin", "+", n_u, L(0)), [("assign", n_u, ">>=", L(1)), acc]), wr("RdV", n_u)])
        out.append([wr("RxV", m), ("for", "i", ("bin", "&", reg("RxV"), L(7)), [("assign", ("reg", "RxV", (True, 32)), ">>=", L(1)), wr("ReV", iv)])])  # bound reads a register the body writes
        out.append([decl("uint32_t", "n", m), ("for", "i", L(3), [("for", "j", ("bin", "-", n_u, iv), [acc])])])              # inner bound reads the outer counter
    # a bare `x++;` / `x--;` statement inside an arm runs only when the arm does
    n_, k_ = var("n", "uint32_t"), var("k", "uint32_t")
    for c in (reg("PuV"), ("cmp", ">", reg("RsV"), reg("RtV"))):
        pre = [decl("uint32_t", "n", reg("RsV")), decl("uint32_t", "k", reg("RtV"))]
        out.append(pre + [("if", c, [("exprstmt", ("post", "n", "++", u32))], [("exprstmt", ("post", "k", "--", u32))]), wr("RdV", n_), wr("ReV", k_)])
        out.append(pre + [("if", c, [("exprstmt", ("post", "n", "++", u32))], None), wr("RdV", n_)])
        out.append(pre + [("if", c, [wr("RxV", n_), ("exprstmt", ("post", "n", "++", u32))], [wr("RxV", k_)]), wr("RdV", n_)])
        out.append(pre + [("for", "i", L(8), [("if", ("bin", "&", ("shift", ">>", k_, iv), L(1)), [("exprstmt", ("post", "n", "++", u32))], None)]), wr("RdV", n_)])   # popcount-like
        out.append(pre + [("if", c, [("if", reg("PvV"), [("exprstmt", ("post", "n", "++", u32))], [("exprstmt", ("post", "n", "--", u32))])], None), wr("RdV", n_)])
    # the whole condition is a narrowing conversion
    for t in ("uint8_t", "int16_t", "int32_t", "uint16_t"):
        c = ("cast", t, T[t], reg("RssV"))
        out.append([("if", c, [wr("RdV", L(1))], [wr("RdV", L(2))])])
        out.append([("if", ("cast", "int64_t", T["int64_t"], c), [wr("RdV", L(1))], [wr("RdV", L(2))])])
        out.append([decl("uint32_t", "n", L(0)), ("for", "i", ("cast", t, T[t], ("bin", "&", reg("RsV"), L(0x103))), [("assign", n_, "+=", L(1))]), wr("RdV", n_)])
    # BOTH arms of one ?: are statement-expressions: exactly one of the two statements runs
    v5, iv5 = var("v", "uint32_t"), ("var", "i", (False, 32))
    pre5 = [("assign", iv5, "=", reg("RsV")), decl("uint32_t", "v", reg("RtV"))]
    one5 = L(1)
    for cnd in (reg("PuV"), ("cmp", ">", reg("RsV"), L(0)), ("cmp", "==", reg("RsV"), reg("RtV")), ("not", reg("RsV")) if False else ("cmp", "!=", reg("RtV"), L(0))):
        se1 = ("stmtexpr", "", T["uint32_t"], "v", ("bin", "+", v5, L(5)), False)
        se2 = ("stmtexpr", "", (False, 32), "i", ("bin", "-", iv5, L(7)), False)
        out.append(pre5 + [wr("RdV", ("tern", cnd, se1, se2)), wr("ReV", ("bin", "+", iv5, v5))])
        out.append(pre5 + [wr("RdV", ("tern", cnd, se2, se1)), wr("ReV", iv5), wr("RxV", v5)])
        out.append(pre5 + [decl("uint32_t", "w", ("tern", cnd, se1, se2)), wr("RdV", var("w", "uint32_t")), wr("ReV", iv5), wr("RxV", v5)])
    return out


def programs_C06(rng, tier):
    """directed placements of value-producing side effects"""
    out = []
    i32 = ("lit", "0", 0, (True, 32))
    one = ("lit", "1", 1, (True, 32))
    iv = ("var", "i", (False, 32))
    pre = [("assign", iv, "=", reg("RsV")), decl("uint32_t", "v", reg("RtV"))]
    v = var("v", "uint32_t")
    hy = [lambda: ("post", "i", "++"), lambda: ("post", "i", "--"), lambda: ("post", "v", "++", T["uint32_t"]), lambda: call("clz32", reg("RuV")),
          lambda: call("revbit32", v), lambda: ("stmtexpr", "", T["uint32_t"], "v", ("bin", "+", v, reg("RuV")), False),
          lambda: set_usr(("bin", "+", v, reg("RuV")))]     # ({ set_usr_field(bundle, HEX_REG_FIELD_USR_OVF, 1); v + RuV; })
    for h in hy:
        out.append(pre + [decl("uint64_t", "w", h()), wr("RddV", var("w", "uint64_t"))])                      # initialiser
        out.append(pre + [wr("RdV", ("bin", "+", h(), reg("RvV")))])                                              # assignment
        out.append(pre + [("if", ("cmp", ">", h(), one), [wr("RdV", one)], [wr("RdV", iv)])])                     # condition (with else)
        out.append(pre + [("if", h(), [wr("RdV", iv)], None), wr("ReV", v)])                                      # condition (no else)
        out.append(pre + [wr("RdV", call("clz32", ("bin", "+", h(), one)))])                                      # call argument
        out.append(pre + [("store", 32, h(), v)])                                                                 # address
        out.append(pre + [("jump", h())])
        out.append(pre + [("for", "j", ("lit", "3", 3, (True, 32)), [wr("RxV", ("bin", "+", reg("RxV"), h()))])]) # loop body
        out.append(pre + [("exprstmt", h()), wr("RdV", iv), wr("ReV", v)])                                        # value unused
        out.append(pre + [wr("RdV", ("tern", reg("PuV"), ("stmtexpr", "", T["uint32_t"], "v", ("bin", "+", v, one), False),
                                       ("stmtexpr", "", (False, 32), "i", ("bin", "-", iv, one), False))), wr("ReV", ("bin", "+", iv, v))])   # both arms statement-expressions
        out.append(pre + [wr("RdV", ("tern", reg("PuV"), h(), reg("RvV")))])                                      # ?: arm
        out.append(pre + [wr("RdV", ("bin", "+", h(), call("clz32", reg("RvV")))), wr("ReV", iv)])                # two in one expression
    # a product with a (literal or folded) zero factor still evaluates its other factor exactly once, in place
    zero = ("lit", "0", 0, (True, 32))
    fz = ("bin", "-", one, one)
    for h in hy[:6]:
        for z in (zero, fz):
            out.append(pre + [("assign", iv, "=", ("lit", "3", 3, (True, 32))), wr("RdV", ("bin", "*", h(), z)), wr("ReV", iv), wr("RxV", v)])
            out.append(pre + [wr("RdV", ("bin", "+", reg("RvV"), ("bin", "*", z, h()))), wr("ReV", iv), wr("RxV", v)])
        out.append(pre + [("if", reg("PuV"), [wr("RdV", ("bin", "*", h(), zero))], None), wr("ReV", iv), wr("RxV", v)])
        out.append(pre + [("for", "j", ("lit", "3", 3, (True, 32)), [wr("RxV", ("bin", "+", reg("RxV"), ("bin", "*", h(), zero)))]), wr("ReV", iv)])
    # compilations that FAIL after a value-producing operation was translated (unknown routine / undeclared name to its right,
    # in the other arm, later in a loop body), each directly in front of an ordinary program
    for bad in ("RdV = i++ + frobnicate(RsV);", "RdV = (PuV ? clz32(RsV) : undeclared_x);", "for (i = 0; i < 2; i++) { RdV = clz32(RsV); ReV = undeclared_y; }",
                "RdV = ({ int32_t q = RsV; q; }) + frobnicate(RtV);", "RdV = clz32(RsV) + undeclared_z;"):
        out.append([("raw", bad)])
        out.append(pre + [wr("RdV", ("bin", "+", ("post", "i", "++"), reg("RvV"))), wr("ReV", iv)])
        out.append([("raw", bad)])
        out.append([wr("RdV", one)])
    out += void_call_programs()
    # statement-expression arms guarded by every comparison operator (the guard of an else arm is the NEGATED condition,
    # which differs from the mirrored one exactly when both sides are equal)
    for op in gen.CMPS:
        for a_, b_ in ((reg("RsV"), reg("RtV")), (reg("RsV"), reg("RsV")), (v, iv)):
            c = ("cmp", op, a_, b_)
            se1 = ("stmtexpr", "", T["uint32_t"], "v", ("bin", "+", v, one), False)
            se2 = ("stmtexpr", "", (False, 32), "i", ("bin", "-", iv, one), False)
            out.append(pre + [wr("RdV", ("tern", c, reg("RvV"), se1)), wr("ReV", v)])
            out.append(pre + [wr("RdV", ("tern", c, se1, reg("RvV"))), wr("ReV", v)])
            out.append(pre + [wr("RdV", ("tern", c, se1, se2)), wr("ReV", ("bin", "+", iv, v))])
    for p in out:
        if any(s[0] == "store" for s in p):
            p.insert(0, ("assign", ("var", "EA", (False, 32)), "=", reg("RuV")))
    return out


OVF, LPCFG = "HEX_REG_FIELD_USR_OVF", "HEX_REG_FIELD_USR_LPCFG"


def set_usr(val, arg=None, field=OVF):
    """({ set_usr_field(bundle, FIELD, arg); val; })"""
    return ("seqexpr", "set_usr_field", ["bundle", field], [arg or ("lit", "1", 1, (True, 32))], val)


def set_usr_stmt(arg, field=OVF):
    return ("vcall", "set_usr_field", ["bundle", field], [arg])


def void_call_programs():
    """void sub-routine call statements and call statement-expressions (the saturation pattern of the shipped
    instructions: `RdV = (fits) ? x : ({ set_usr_field(bundle, HEX_REG_FIELD_USR_OVF, 1); (x < 0) ? MIN : MAX; })`)"""
    out = []
    L = lambda k: ("lit", str(k), k, (True, 32))
    LL = lambda txt, k: ("lit", txt, k, (True, 64))
    iv = ("var", "i", (False, 32))
    i64 = T["int64_t"]
    s, t, u = reg("RsV"), reg("RtV"), reg("RuV")
    x = ("bin", "+", ("cast", "int64_t", i64, s), ("cast", "int64_t", i64, t))          # the exact sum
    fits = ("cmp", "==", x, ("cast", "int64_t", i64, ("cast", "int32_t", T["int32_t"], x)))
    sat = ("tern", ("cmp", "<", x, L(0)), ("un", "-", LL("0x80000000LL", 0x80000000)), LL("0x7fffffffLL", 0x7fffffff))
    # --- statements
    out.append([set_usr_stmt(L(1))])
    out.append([wr("RdV", s), set_usr_stmt(t), wr("ReV", u)])                                             # in order between other effects
    out.append([set_usr_stmt(L(1), LPCFG), set_usr_stmt(s), set_usr_stmt(t)])                             # last write wins, two fields
    out.append([("if", ("cmp", ">", s, L(0)), [set_usr_stmt(L(1)), wr("RdV", L(1))], [wr("RdV", L(2)), set_usr_stmt(t, LPCFG)])])
    out.append([("if", reg("PuV"), [set_usr_stmt(s)], None), wr("RdV", t)])
    out.append([("for", "i", L(3), [set_usr_stmt(iv, LPCFG), wr("RxV", ("bin", "+", reg("RxV"), iv))])])  # loop body
    out.append([("for", "i", L(4), [("if", ("cmp", "==", iv, L(2)), [set_usr_stmt(("bin", "+", s, iv))], None)])])
    out.append([set_usr_stmt(("cast", "uint8_t", T["uint8_t"], s))])                                      # argument conversions
    out.append([set_usr_stmt(reg("RssV"))])
    out.append([set_usr_stmt(("tern", reg("PuV"), L(1), L(0)))])
    out.append([("vcall", "trap", [], [L(0), ("imm", "uiV", (False, 32))]), wr("RdV", s)])               # trap(0, uiV)
    # --- statement-expressions
    out.append([wr("RdV", set_usr(("bin", "+", s, L(1))))])                                               # bare
    out.append([wr("RdV", ("tern", fits, x, set_usr(sat)))])                                              # the saturation pattern (else arm)
    out.append([wr("RdV", ("tern", ("cmp", "<", s, L(0)), set_usr(("un", "-", s)), s))])                  # then arm
    out.append([wr("RdV", ("tern", reg("PuV"), set_usr(s, L(1)), set_usr(t, L(2))))])                     # both arms, same field
    out.append([wr("RdV", ("tern", reg("PuV"), set_usr(s, L(1)), set_usr(t, L(2), LPCFG)))])              # both arms, two fields
    out.append([wr("RdV", set_usr(("tern", reg("PuV"), s, set_usr(t, L(2), LPCFG))))])                    # nested inside the value
    out.append([wr("RdV", set_usr(("tern", ("cmp", "<", s, L(0)), ("tern", ("cmp", ">", t, L(3)), L(1), L(2)), L(7))))])   # nested ?: in the value
    out.append([wr("RdV", ("bin", "+", set_usr(s, L(1)), set_usr(t, L(2), LPCFG)))])                      # two in one expression
    out.append([wr("RdV", ("bin", "+", set_usr(s, s), set_usr(t, t)))])                                   # two writes of one field, in order
    out.append([("if", s, [wr("RdV", set_usr(t))], [wr("RdV", L(2))])])                                   # inside an if arm
    out.append([("if", set_usr(s), [wr("RdV", L(1))], [wr("RdV", L(2))])])                                # as a condition
    out.append([("for", "i", L(3), [wr("RxV", ("bin", "+", reg("RxV"), set_usr(s, iv)))])])               # in a loop body
    out.append([("for", "i", L(3), [wr("RxV", ("tern", ("cmp", "==", iv, L(1)), set_usr(s, iv), reg("RxV")))])])
    out.append([wr("RdV", set_usr(("bin", "+", t, call("clz32", u)), call("clz32", s)))])                 # calls inside argument and value
    out.append([("assign", iv, "=", s), wr("RdV", set_usr(("post", "i", "++"))), wr("ReV", iv)])          # postfix as the value
    out.append([("assign", iv, "=", s), wr("RdV", set_usr(t, ("post", "i", "++"))), wr("ReV", iv)])       # postfix as the argument
    out.append([("assign", iv, "=", s), set_usr_stmt(("post", "i", "++")), wr("ReV", iv)])                # postfix argument of the statement form
    out.append([wr("RdV", ("tern", reg("PuV"), ("tern", reg("PvV"), set_usr(s), u), t))])                 # arm of an inner ?: (guarded by the inner condition only)
    out.append([wr("RddV", ("tern", reg("PuV"), reg("RssV"), set_usr(t)))])                               # arms of different types
    out.append([wr("RdV", ("cast", "int8_t", T["int8_t"], set_usr(s)))])
    out.append([decl("int32_t", "w", set_usr(s)), wr("RdV", var("w", "int32_t"))])
    out.append([("jump", set_usr(s))])
    zero, one = L(0), L(1)
    for cond in (zero, one, ("cmp", "<", zero, one)):                                                     # dead arms
        out.append([wr("RdV", ("bin", "+", ("tern", cond, set_usr(s), t), call("clz32", u)))])
        out.append([wr("RdV", ("tern", cond, t, set_usr(s))), wr("ReV", set_usr(u, L(2)))])
    return out


def _conv_round_csub():
    """C text of the bundled conv_round (sub_routines.json), as AST, for the C side."""
    i32, i64, u32 = (True, 32), (True, 64), (False, 32)
    a, n, cv = ("var", "a", i32), ("var", "n", i32), ("var", "conv_val", i64)
    L = lambda v: ("lit", str(v), v, (True, 32))
    sh1 = lambda e: ("shift", "<<", L(1), e)
    body = [("decl", "int64_t", i64, "conv_val", None),
            ("if", ("cmp", "==", n, L(0)), [("assign", cv, "=", a)],
             [("if", ("cmp", "==", ("bin", "&", a, ("bin", "-", sh1(("bin", "-", n, L(1))), L(1))), L(0)),
               [("assign", cv, "=", ("bin", "+", ("cast", "int64_t", i64, ("cast", "int32_t", i32, a)),
                                      ("cast", "int64_t", i64, ("shift", ">>", ("cast", "uint32_t", u32, ("bin", "&", sh1(n), a)), L(1)))))],
               [("assign", cv, "=", ("bin", "+", ("cast", "int64_t", i64, ("cast", "int32_t", i32, a)), sh1(("bin", "-", n, L(1)))))])]),
            ("assign", cv, "=", ("shift", ">>", cv, n)),
            ("ret", ("cast", "int32_t", i32, cv))]
    return ["csub", Q("conv_round"), [[Q("a"), [True, 32]], [Q("n"), [True, 32]]], [True, 32], semcheck.stmts(body)]


CSUBS = [_conv_round_csub()]   # C-side definitions of routines without a closed-form reference

_elab_csubs = None


def _elaborated_csub(name, refs):
    """C-side definition of a bundled sub-routine taken from its own C text (sub_routines.json): parsed by the real
    parser and elaborated like a behaviour (value parameters are locals; a `const HexOp *RxV` parameter is the register
    operand `RxV` itself, handed over by reference).  Self-check: the printed AST parses to the same tree."""
    import elab
    import c01
    sr = json.load(open(os.path.join(rc.REPO, "Resources/Hexagon/sub_routines.json")))["sub_routines"][name]
    params = []
    for p_ in sr["params"]:
        ty, pn = p_.rsplit(" ", 1)
        if ty in elab.INT:
            params.append((pn, elab.INT[ty]))
    el = elab.Elab(*c01.signatures())
    el.locals = {n: t for n, t in params}
    tree = rc.parse_programs([sr["code"]])[0]
    if tree[0] != "ok":
        raise RuntimeError(f"bundled sub-routine {name} does not parse")
    body = el.program(tree[1])
    again = rc.parse_programs([gen.prog_src(body)])[0]
    if again[0] != "ok" or again[1] != tree[1]:
        raise RuntimeError(f"bundled sub-routine {name}: print/parse round trip of the elaborated body gives a different tree")
    return ["csub", Q(name), [[Q(n), [bool(t[0]), t[1]]] for n, t in params], [bool(elab.INT[sr["return_type"]][0]), elab.INT[sr["return_type"]][1]],
            semcheck.stmts(body), [Q(r) for r in refs]]


def all_csubs():
    """CSUBS plus the routines whose C-side definition is elaborated from the bundled C text"""
    global _elab_csubs
    if _elab_csubs is None:
        _elab_csubs = [_elaborated_csub("fcirc_add", ["Rx_op"])]
    return CSUBS + _elab_csubs


LPCFG_F, OVF_F = "HEX_REG_FIELD_USR_LPCFG", "HEX_REG_FIELD_USR_OVF"


def get_usr(field=LPCFG_F):
    return ("callx", "get_usr_field", ["bundle", field], [], (False, 32))


def get_npc():
    return ("callx", "get_npc", ["pkt"], [], (False, 32))


def get_cs(m="MuV"):
    return ("xmacro", "get_corresponding_CS", ["pkt", m], (True, 32))


def fcirc(off, rx="RxV", m="MuV"):
    return ("callx", "fcirc_add", ["bundle", rx], [off, reg(m), get_cs(m)], (True, 32))


def value_call_programs():
    """value calls with pass-through arguments: get_usr_field, get_npc, fcirc_add (by-reference register operand)"""
    out = []
    L = lambda k: ("lit", str(k), k, (True, 32))
    H = lambda txt, k: ("lit", txt, k, (False, 32))
    s, t = reg("RsV"), reg("RtV")
    i64 = T["int64_t"]
    # --- get_usr_field
    out.append([wr("RdV", get_usr())])
    out.append([wr("RddV", get_usr())])                                                        # uint32_t widened
    out.append([wr("RdV", ("bin", "+", get_usr(), s))])
    out.append([wr("RdV", ("bin", "+", get_usr(LPCFG_F), get_usr(OVF_F)))])                    # two fields
    out.append([set_usr_stmt(s, LPCFG_F), wr("RdV", get_usr(LPCFG_F))])                        # reads what was written
    out.append([set_usr_stmt(s, OVF_F), wr("RdV", get_usr(LPCFG_F))])                          # another field: old value
    out.append([wr("RdV", get_usr(LPCFG_F)), set_usr_stmt(t, LPCFG_F), wr("ReV", get_usr(LPCFG_F))])   # before and after
    out.append([("if", get_usr(), [set_usr_stmt(("bin", "-", get_usr(), L(1)), LPCFG_F)], None)])        # the J2_endloop0 shape
    out.append([("if", ("cmp", ">", get_usr(), L(1)), [wr("RdV", L(1))], [wr("RdV", get_usr(OVF_F))])])
    out.append([decl("uint32_t", "w", get_usr()), wr("RdV", ("shift", ">>", var("w", "uint32_t"), L(1)))])
    # not included (observed, see NOTES-value-calls.md): `RdV = ({ set_usr_field(b, F, s); get_usr_field(b, F); })` — the
    # pending call inside the VALUE of a call statement-expression is pulled in front of the statement (reads the old cell)
    # a void call statement with a pending argument in a loop body / block with a bare value: the dependencies of the bare
    # values (loop step, `i++;`) come first, then those of the call's arguments (`chk`: bare leaves first)
    out.append([("for", "i", L(3), [set_usr_stmt(("bin", "+", get_usr(), L(1)), LPCFG_F)]), wr("RdV", get_usr())])
    out.append([("for", "i", L(3), [set_usr_stmt(call("clz32", s), LPCFG_F), wr("RdV", call("clz32", t))])])
    out.append([("assign", ("var", "i", (False, 32)), "=", s), ("if", reg("PuV"), [set_usr_stmt(call("clz32", s), LPCFG_F), ("exprstmt", ("post", "i", "++"))], None),
                wr("RdV", ("var", "i", (False, 32)))])
    out.append([wr("RdV", ("tern", reg("PuV"), get_usr(), s))])                                  # ?: arm (the call itself has no effect on the state)
    out.append([wr("RdV", call("clz32", get_usr()))])                                            # argument of another call
    out.append([("exprstmt", get_usr()), wr("RdV", s)])                                          # value unused
    out.append([("if", reg("PuV"), [wr("RdV", s), set_usr_stmt(("bin", "+", get_usr(), L(1)), LPCFG_F)], None), wr("ReV", get_usr())])
    # --- get_npc
    out.append([wr("RdV", get_npc())])
    out.append([("assign", ("reg", "HEX_REG_ALIAS_LR", (False, 32)), "=", ("bin", "&", get_npc(), H("0xfffffffe", 0xfffffffe)))])  # fREAD_NPC of J2_call
    out.append([wr("RddV", ("bin", "+", get_npc(), reg("RssV")))])
    out.append([wr("RdV", ("bin", "-", get_npc(), ("reg", "HEX_REG_ALIAS_PC", (False, 32))))])   # next packet - this packet
    out.append([("jump", get_npc())])
    out.append([("if", ("cmp", "==", get_npc(), s), [wr("RdV", L(1))], None)])
    out.append([wr("RdV", ("tern", reg("PuV"), get_npc(), get_usr()))])
    # --- get_corresponding_CS
    out.append([wr("RdV", get_cs())])
    out.append([wr("RddV", get_cs())])                                                         # int32_t sign-extended
    out.append([wr("RdV", ("bin", "+", get_cs(), reg("MuV")))])
    # --- fcirc_add: returns the new pointer AND writes it to the register operand handed over by reference
    ea = ("var", "EA", (False, 32))
    si = ("imm", "siV", (True, 32))
    out.append([wr("RdV", fcirc(si))])
    out.append([wr("RddV", fcirc(si))])
    out.append([wr("RdV", fcirc(s)), wr("ReV", reg("RxV"))])                                     # the operand after the call
    out.append([("assign", ea, "=", reg("RxV")), wr("RdV", fcirc(si)), wr("ReV", ("bin", "-", reg("RxV"), ea))])
    out.append([wr("RdV", ("bin", "+", fcirc(L(4)), fcirc(L(8))))])                              # two calls: the second sees the first's update
    out.append([wr("RdV", fcirc(("shift", "<<", s, L(2))))])
    out.append([("if", reg("PuV"), [wr("RdV", fcirc(si))], [wr("RdV", reg("RxV"))])])
    out.append([("for", "i", L(3), [wr("RdV", fcirc(L(4)))])])                                   # advances three times
    out.append([("assign", ea, "=", reg("RxV")), ("exprstmt", fcirc(si)), wr("RdV", ea)])        # the shipped shape (value dropped; the call moves to the front)
    out.append([("exprstmt", fcirc(si)), wr("RdV", reg("RxV"))])
    return out


def programs_C08(rng, tier):
    out = []
    a = [reg("RsV"), reg("RssV"), reg("PuV"), ("cast", "int8_t", T["int8_t"], reg("RtV")), ("cast", "uint16_t", T["uint16_t"], reg("RtV"))]
    for name, pts, rt in gen.CALLS:
        for x in a:
            args = [x] + [("bin", "&", reg("RvV"), ("lit", "15", 15, (True, 32)))] * (len(pts) - 1)
            out.append([wr("RddV", ("call", name, args, rt))])
            out.append([decl("int64_t", "r", ("call", name, args, rt)), wr("RddV", var("r", "int64_t"))])
    # several calls per expression, nested calls
    for n1, p1, r1 in gen.CALLS[:7]:
        for n2, p2, r2 in gen.CALLS[:7]:
            out.append([wr("RddV", ("bin", "+", ("call", n1, [reg("RsV")], r1), ("call", n2, [reg("RtV")], r2)))])
            out.append([wr("RddV", ("call", n1, [("call", n2, [reg("RssV")], r2)], r1))])
    if tier == "quick":
        rng.shuffle(out)
        out = out[:150]
    return out + dead_arm_calls() + value_call_programs()


def dead_arm_calls():
    """constant ?: conditions whose arms are calls, followed by another call (temporary numbering)"""
    out = []
    zero, one = ("lit", "0", 0, (True, 32)), ("lit", "1", 1, (True, 32))
    for cond in (zero, one, ("cmp", "==", one, zero), ("cmp", "<", zero, one)):
        for n1, n2, n3 in (("clz32", "clz32", "clz32"), ("revbit32", "clz32", "revbit32"), ("clz32", "revbit32", "clz32")):
            f = lambda n, r: ("call", n, [reg(r)], (False, 32))
            out.append([wr("RdV", ("bin", "+", ("tern", cond, f(n1, "RsV"), f(n2, "RtV")), f(n3, "RuV")))])
            out.append([wr("RdV", ("bin", "+", f(n3, "RuV"), ("tern", cond, f(n1, "RsV"), f(n2, "RtV"))))])
    return out


def dead_arm_hybrids():
    """constant ?: conditions whose arms are statement-expressions / postfix operations / calls, with a further
    value-producing operation later in the same full expression or in the next statement"""
    out = []
    zero, one = ("lit", "0", 0, (True, 32)), ("lit", "1", 1, (True, 32))
    iv = ("var", "i", (False, 32))
    pre = [("assign", iv, "=", reg("RsV")), decl("uint32_t", "v", reg("RtV"))]
    v = var("v", "uint32_t")
    se = lambda k: ("stmtexpr", "", T["uint32_t"], "v", ("bin", "+", v, ("lit", str(k), k, (True, 32))), False)
    f = lambda n, r: ("call", n, [reg(r)], (False, 32))
    arms = [(se(5), se(6)), (se(5), f("clz32", "RuV")), (f("clz32", "RuV"), se(6)), (("post", "i", "++"), se(6)), (se(5), ("post", "i", "--"))]
    later = [lambda: ("post", "i", "++"), lambda: f("revbit32", "RvV"), lambda: se(9)]
    for cond in (zero, one, ("cmp", "==", one, zero), ("cmp", "<", zero, one)):
        for a1, a2 in arms:
            for lt in later:
                out.append(pre + [decl("uint32_t", "a", ("bin", "+", ("tern", cond, a1, a2), lt())), wr("RdV", var("a", "uint32_t")), wr("ReV", ("bin", "+", iv, v))])
                out.append(pre + [decl("uint32_t", "a", ("tern", cond, a1, a2)), wr("RdV", ("bin", "+", var("a", "uint32_t"), lt())), wr("ReV", ("bin", "+", iv, v))])
    return out


def repeated_calls():
    """the same call text twice: C performs two calls, each on the CURRENT value of its argument"""
    out = []
    L = lambda k: ("lit", str(k), k, (True, 32))
    x, a = var("x", "uint32_t"), var("a", "uint32_t")
    for name in ("clz32", "clo32", "revbit32", "revbit16"):
        c = lambda: call(name, x)
        out.append([decl("uint32_t", "x", reg("RsV")), decl("uint32_t", "a", c()), ("assign", x, "=", ("shift", "<<", x, L(4))), wr("RdV", ("bin", "+", a, c()))])
        out.append([decl("uint32_t", "x", reg("RsV")), decl("uint32_t", "a", c()), ("assign", x, "+=", L(1)), decl("uint32_t", "b", c()), wr("RdV", ("bin", "-", a, var("b", "uint32_t")))])
        out.append([decl("uint32_t", "x", reg("RsV")), decl("uint32_t", "a", L(0)), ("if", reg("PuV"), [("assign", a, "=", c())], None), wr("RdV", ("bin", "+", a, c()))])
        out.append([decl("uint32_t", "x", reg("RsV")), wr("RdV", c()), ("assign", x, "=", reg("RtV")), wr("ReV", c())])
        out.append([decl("uint32_t", "x", reg("RsV")), wr("RdV", ("bin", "+", c(), c()))])
        out.append([decl("uint32_t", "x", reg("RsV")), ("for", "i", L(3), [wr("RxV", ("bin", "+", reg("RxV"), c())), ("assign", x, ">>=", L(1))])])
    return out


# ---- sub-routines registered through the public API (Compiler.add_sub_routine), with their C text as AST ------------------
def user_subs():
    """(name, return type spelling, [(type spelling, parameter name)], body AST). Each `return` ends its path (an early return
    that is followed by further statements is a listed deviation of the compiler and is avoided here)."""
    L = lambda k: ("lit", str(k), k, (True, 32))
    v32 = lambda n: ("var", n, (False, 32))
    out = []
    out.append(("vf_low8", "uint8_t", [("uint32_t", "v")], [("ret", ("shift", ">>", v32("v"), L(4)))]))
    out.append(("vf_low16", "uint16_t", [("uint32_t", "v")], [("ret", ("shift", ">>", v32("v"), L(4)))]))
    out.append(("vf_neg8", "int8_t", [("int32_t", "v")], [("ret", ("var", "v", (True, 32)))]))
    out.append(("vf_wrap8", "uint32_t", [("uint32_t", "v")], [("ret", ("call", "vf_low8", [v32("v")], (False, 8)))]))          # return f(x): inner type narrower
    out.append(("vf_wrap16", "uint64_t", [("uint32_t", "v")], [("ret", ("call", "vf_low16", [v32("v")], (False, 16)))]))
    out.append(("vf_wrapneg", "int64_t", [("int32_t", "v")], [("ret", ("call", "vf_neg8", [("var", "v", (True, 32))], (True, 8)))]))
    out.append(("vf_sel", "uint32_t", [("uint32_t", "x"), ("uint32_t", "go")],
                [decl("uint32_t", "y", ("shift", ">>", v32("x"), L(1))),
                 ("if", ("cmp", "!=", v32("go"), L(0)), [("ret", call("clz32", v32("y")))], [("ret", L(0))])]))                   # return f(y) inside an arm
    out.append(("vf_sel2", "uint32_t", [("uint32_t", "x"), ("uint32_t", "go")],
                [("if", ("cmp", "!=", v32("go"), L(0)), [("ret", ("call", "vf_low8", [v32("x")], (False, 8)))],
                  [("ret", ("call", "vf_low16", [v32("x")], (False, 16)))])]))                                                    # tail calls in both arms
    out.append(("vf_sum3", "int32_t", [("int8_t", "a"), ("uint16_t", "b"), ("int64_t", "c")],
                [("ret", ("bin", "+", ("bin", "+", ("var", "a", (True, 8)), ("var", "b", (False, 16))), ("var", "c", (True, 64))))]))
    out.append(("vf_loopcnt", "uint32_t", [("uint32_t", "n")],
                [decl("uint32_t", "t", L(0)), ("for", "i", ("bin", "&", v32("n"), L(7)), [("assign", v32("t"), "+=", call("clz32", ("shift", ">>", v32("n"), ("var", "i", (False, 32)))))]),
                 ("ret", v32("t"))]))
    # a folded unsigned constant returned through a wider return type (C: converted from unsigned int, i.e. zero-extended)
    u64r = lambda e: [("ret", e)]
    out.append(("vf_umask", "uint64_t", [("uint32_t", "v")], u64r(("un", "~", ("lit", "0U", 0, (False, 32))))))
    out.append(("vf_himask", "uint64_t", [("uint32_t", "v")], u64r(("un", "~", ("lit", "0xffU", 255, (False, 32))))))
    out.append(("vf_usub", "int64_t", [("uint32_t", "v")], u64r(("bin", "-", ("lit", "0U", 0, (False, 32)), ("lit", "16", 16, (True, 32))))))
    out.append(("vf_useln", "uint64_t", [("uint32_t", "v")],
                [("if", ("cmp", "!=", v32("v"), L(0)), [("ret", ("un", "~", ("lit", "0U", 0, (False, 32))))], [("ret", ("lit", "5", 5, (True, 32)))])]))
    # two routines with character-identical body and return type whose like-named parameters differ in type
    out.append(("vf_lsr4_s", "uint32_t", [("int32_t", "v")], [("ret", ("shift", ">>", ("var", "v", (True, 32)), L(4)))]))
    out.append(("vf_lsr4_u", "uint32_t", [("uint32_t", "v")], [("ret", ("shift", ">>", v32("v"), L(4)))]))
    out.append(("vf_lt_s", "uint32_t", [("int32_t", "v"), ("int32_t", "w")], [("ret", ("cmp", "<", ("var", "v", (True, 32)), ("var", "w", (True, 32))))]))
    out.append(("vf_lt_u", "uint32_t", [("uint32_t", "v"), ("uint32_t", "w")], [("ret", ("cmp", "<", v32("v"), v32("w")))]))
    out.append(("vf_wide8", "uint32_t", [("uint8_t", "v")], [("ret", ("bin", "+", ("var", "v", (False, 8)), L(1)))]))
    out.append(("vf_wide32", "uint32_t", [("uint32_t", "v")], [("ret", ("bin", "+", v32("v"), L(1)))]))
    return out


# a body `return <signed value narrower than 64 bit>;` in a routine with a wider signed return type: the compiler copies every
# returned value into the 64-bit `ret_val` through a conversion to ut64, which zero-extends (the listed conversion defect)
USER_SUB_FEATURES = {"vf_wrapneg": {"signed_return_widened"}}


def register_user_subs(c):
    """registers them on the real compiler (once), tells the serialiser their signatures, returns the C-side definitions and
    caller programs"""
    csubs, progs = [], []
    subs = user_subs()
    for name, rts, params, body in subs:
        rt = T[rts]
        pts = [T[sp] for sp, _ in params]
        semcheck.CALL_SIGS[name] = (pts, rt)
        gen.USER_CALL_PARAMS[name] = pts
        if name not in c.sub_routines:
            with rc.quiet():
                c.add_sub_routine(name, rts, [f"{sp} {n}" for sp, n in params], gen.prog_src(body))
        csubs.append(["csub", Q(name), [[Q(n), [T[sp][0], T[sp][1]]] for sp, n in params], [rt[0], rt[1]], semcheck.stmts(body)])
    srcs = [reg("RsV"), reg("RssV"), ("cast", "int8_t", T["int8_t"], reg("RtV")), ("un", "-", reg("RsV"))]
    for name, rts, params, body in subs:
        rt = T[rts]
        for x in srcs:
            args = [x] + [("bin", "&", reg("RvV"), ("lit", "1", 1, (True, 32)))] * (len(params) - 1)
            cl = ("call", name, args, rt)
            progs.append([wr("RddV", cl)])
            progs.append([decl("int64_t", "r", cl), wr("RddV", var("r", "int64_t"))])
        progs.append([decl("uint32_t", "r", ("call", name, [reg("RsV")] + [("lit", "0", 0, (True, 32))] * (len(params) - 1), rt)), wr("RdV", var("r", "uint32_t")),
                      wr("ReV", ("call", name, [reg("RtV")] + [("lit", "1", 1, (True, 32))] * (len(params) - 1), rt))])
    return csubs, progs


def tree_ties(asts, nstates=0):
    """compile each program with the real compiler and ask Lean whether the denoted real tree equals the lowering model's tree
    (Cfg.asCode); returns [(src, status, tree_equal, model, real)] - the observation 'which conversions were inserted where'"""
    items = [{"ast": a, "src": gen.prog_src(a)} for a in asts]
    parsed = rc.parse_programs([it["src"] for it in items])
    c = rc.compiler("READ_STATEMENTS")
    for it, pr in zip(items, parsed):
        if pr[0] != "ok":
            it["status"] = "parse-reject"
            continue
        r = rc.transform_tree(c, pr[1])
        if r[0] != "ok":
            it.update(status="transform-reject", exc=r[1])
        else:
            it.update(status="ok", text={"READ_STATEMENTS": r[1]})
    subdefs = rc.sub_routine_defs(c)
    pre = [sx(["def-sub", n_, ret, [[p_, s_] for p_, s_ in params], Q(text)]) for n_, ret, params, text in subdefs]
    reqs = semcheck.sem_requests(items, nstates, seed() + 1, csubs=all_csubs())
    reps = Driver().run(pre + [r for _, r in reqs])[len(pre):]
    out = []
    done = set()
    for (i, _), rp_ in zip(reqs, reps):
        d = semcheck.parse_sem(rp_)
        done.add(i)
        out.append((items[i]["src"], "ok", bool(d.get("tree-equal")), d.get("model"), d.get("real")))
    for i, it in enumerate(items):
        if i not in done:
            out.append((it["src"], it.get("status", "unmodelled"), None, None, None))
    return out


def common_type_programs():
    """every pair of operand types under + * & and the comparisons, the right/left operand also as a literal of every suffix:
    the common type must depend on the two TYPES only"""
    out = []
    L = lambda txt: lit(txt)
    for t1 in TN:
        a = var("a", t1)
        pre = [decl(t1, "a", ("cast", t1, T[t1], reg("RssV")))]
        for t2 in TN:
            b = var("b", t2)
            pre2 = pre + [decl(t2, "b", ("cast", t2, T[t2], reg("RttV")))]
            out.append(pre2 + [wr("RddV", ("bin", "+", a, b))])
            out.append(pre2 + [wr("RdV", ("cmp", "<", a, b))])
            out.append(pre2 + [wr("RddV", ("tern", reg("PuV"), a, b))])
        for txt in ("5", "5U", "5LL", "5ULL", "0x80000000", "0xffffffffU"):
            for op in ("+", "*", "&"):
                out.append(pre + [wr("RddV", ("bin", op, a, L(txt)))])
                out.append(pre + [wr("RddV", ("bin", op, L(txt), a))])
            for op in ("<", ">=", "=="):
                out.append(pre + [wr("RdV", ("cmp", op, a, L(txt)))])
                out.append(pre + [wr("RdV", ("cmp", op, L(txt), a))])
            out.append(pre + [("if", ("log", "&&", a, L(txt)), [wr("RdV", L("1"))], None)])
    return out


def common_type_value_independence():
    """the common type depends on the two TYPES only - not on the operands' VALUES, on the operator, on how an operand came
    about (a routine's result, a statement-expression, a local that was incremented before) or on which arm it is:
    literal x literal under + - * / with small/large, positive/negative results (folded at compile time), every suffix pair;
    ?: with a call result / statement-expression / incremented local in either arm against registers of every rank"""
    out = []
    L = lambda txt: lit(txt)
    sfx = ("", "U", "LL", "ULL")
    for s1 in sfx:
        for s2 in sfx:
            for (x, y) in ((1, 2), (2, 1), (3, 3), (7, 2), (0, 5)):
                for op in ("+", "-", "*", "/"):
                    if op == "/" and y == 0:
                        continue
                    e = ("bin", op, L(f"{x}{s1}"), L(f"{y}{s2}"))
                    out.append([wr("RddV", e)])
                    out.append([wr("RdV", ("cmp", ">", e, reg("RsV")))])
            # a folded operand next to a third one: 3U * (1 - 2)
            out.append([wr("RddV", ("bin", "*", L("3" + s1), ("bin", "-", L("1" + s2), L("2" + s2))))])
    u32, one = T["uint32_t"], L("1")
    v, iv = var("v", "uint32_t"), ("var", "i", (True, 32))
    hybs = [lambda: call("clz32", reg("RsV")), lambda: call("revbit32", reg("RsV")), lambda: ("bin", "+", call("clz32", reg("RsV")), one),
            lambda: ("stmtexpr", "", u32, "v", ("bin", "+", v, one), False)]
    for other in (reg("RssV"), reg("RtV"), ("cast", "uint64_t", T["uint64_t"], reg("RssV")), ("cast", "int16_t", T["int16_t"], reg("RtV")), reg("PvV")):
        for h in hybs:
            pre = [decl("uint32_t", "v", reg("RtV"))]
            out.append(pre + [wr("RddV", ("tern", reg("PuV"), h(), other))])
            out.append(pre + [wr("RddV", ("tern", reg("PuV"), other, h()))])
        # a local that was post-incremented before keeps its declared type in a later ?:
        for order in (0, 1):
            arms = (iv, other) if order == 0 else (other, iv)
            out.append([decl("int32_t", "i", reg("RsV")), wr("RdV", ("post", "i", "++", (True, 32))), wr("RddV", ("tern", reg("PuV"), *arms))])
            out.append([decl("int32_t", "i", reg("RsV")), wr("RddV", ("tern", reg("PuV"), *arms))])
    return out


def explicit_rw_mixed(ast) -> bool:
    reads, writes = set(), set()
    gen._regs(list(ast), reads, writes)
    return any((r in writes) and (semcheck.reg_kind(r) in ("explicit", "alias")) for r in reads)


def run_prop(prop: str, tier: str, replay=None) -> int:
    res = Result(prop, tier)
    st = prepare(prop, translate=translate.run_all, extra_modules=["RzilVerif.Props.C08Calls"] if prop == "C08" else [])
    res.proof = st
    rng = random.Random(seed() * 7331 + int(prop[1:]))
    nstates = 24 if tier == "quick" else 96
    if prop == "C02":
        asts = programs_C02(rng, tier) + stream_generated(rng, 60, 60, gen.Cfg(hybrids=0.0, max_stmts=2, loops=0.0, ifs=0.1, mem=0.0, jumps=0.0))
    elif prop == "C03":
        cs = conversion_sites_C03()
        if tier == "quick":
            rng.shuffle(cs)
            cs = cs[:260]
        asts = programs_C03(rng, tier) + cs + stream_generated(rng, 40, 40, gen.Cfg(hybrids=0.0, max_stmts=3, casts=0.5, loops=0.0))
    elif prop == "C05":
        n = 220 if tier == "quick" else 2500
        asts = programs_C05(rng, tier) + stream_generated(rng, n, n // 2, gen.Cfg(hybrids=0.0, max_stmts=6, max_nest=3, loops=0.2, ifs=0.3, compound_assign=0.4, max_depth=2, chains=0.35))
    elif prop == "C06":
        n = 150 if tier == "quick" else 2000
        asts = programs_C06(rng, tier) + dead_arm_calls() + dead_arm_hybrids() + stream_generated(rng, n, n // 2, gen.Cfg(hybrids=0.35, max_stmts=4, max_nest=2, max_depth=2, loops=0.15, ifs=0.25))
    elif prop == "C08":
        n = 120 if tier == "quick" else 1500
        asts = programs_C08(rng, tier) + repeated_calls() + stream_generated(rng, n, n // 3, gen.Cfg(hybrids=0.5, max_stmts=3, max_depth=3))
    else:
        asts = programs_C09(rng, tier) + dead_arm_calls() + stream_generated(rng, 40, 40, gen.Cfg(hybrids=0.0, literals=0.5, max_stmts=2))
    user_csubs = []
    if prop in ("C08", "C03"):
        user_csubs, uprogs = register_user_subs(rc.compiler("READ_STATEMENTS"))
        asts = uprogs + asts
    if replay:
        rp = json.load(open(replay))
        if "ast" in rp:
            asts = [json.loads(rp["ast"], object_hook=None)]
            asts = [_detuple(asts[0])]
    items = []
    for a in asts:
        f = gen.features(a)
        if explicit_rw_mixed(a):
            f.add("explicit_rw_mixed")
        items.append({"ast": a, "src": gen.prog_src(a), "features": f})
    if prop == "C09" and not replay:
        items += division_items()
    for it in items:
        for un, uf in USER_SUB_FEATURES.items():
            if un + "(" in it["src"]:
                it["features"] |= uf        # carve-out classes a registered routine's BODY falls into
    parsed = rc.parse_programs([it["src"] for it in items])
    c = rc.compiler("READ_STATEMENTS")
    for it, pr in zip(items, parsed):
        if pr[0] != "ok":
            it["status"] = "parse-reject"
            continue
        r = rc.transform_tree(c, pr[1])
        if r[0] != "ok":
            it.update(status="transform-reject", exc=r[1], msg=r[2])
        else:
            it.update(status="ok", text={"READ_STATEMENTS": r[1]})
    rc.close_pool()
    subdefs = rc.sub_routine_defs(c)
    pre = [sx(["def-sub", n_, ret, [[p_, s_] for p_, s_ in params], Q(text)]) for n_, ret, params, text in subdefs]
    import re as _re
    callee_tmps = {n_: set(_re.findall(r'SETL\("(h_tmp\d+)"', text)) for n_, _, _, text in subdefs}
    for it in items:
        if it.get("status") != "ok":
            continue
        mine = set(_re.findall(r'"(h_tmp\d+)"', it["text"]["READ_STATEMENTS"]))
        for cn, ts in callee_tmps.items():
            if ts & mine and (cn + "(") in it["src"]:
                it["features"].add("callee_tmp")   # a caller temporary has the name of a temporary the callee's body sets
    reqs = semcheck.sem_requests(items, nstates, seed() + 1, csubs=all_csubs() + user_csubs)
    allreps = Driver().run(pre + [r for _, r in reqs])
    reps = allreps[len(pre):]
    sub_problems = []
    if prop == "C08":
        import textcheck as _tc
        for (n_, _, _, _), rp0 in zip(subdefs, allreps[:len(pre)]):
            rep = _tc.parse_report(rp0)
            for kk in ("c10", "c11", "c12"):
                if rep.get(kk):
                    sub_problems.append({"what": f"compiled body of sub-routine {n_}: {rep[kk][:2]} (argument / return conversions and ownership inside the callee)", "sub": n_})
    viol, samples = [], []
    cnt = collections.Counter()
    known_by_feature = collections.Counter()
    tie_broken = []
    known_ids = {k["id"]: k for k in known_for(prop)}
    known_feats = {f for k in known_ids.values() for f in k.get("feature_any", [])}
    for (i, _), rp_ in zip(reqs, reps):
        it = items[i]
        d = semcheck.parse_sem(rp_)
        feats = it["features"]
        if "error" in d or not d.get("parsed"):
            if feats & {"fold_arith", "fold_unary", "const_cond", "fold_cmp"}:
                cnt["unparsable_known_class"] += 1      # invalid identifier / undeclared operand (C11's listed findings)
            else:
                viol.append({"what": "emitted text could not be read", "program": it["src"], "carve_out_classes": sorted(feats)})
            continue
        cnt["checked"] += 1
        cnt["states_run"] += d["ran"]
        cnt["states_skipped_C_undefined"] += d["skipped"]
        if len(samples) < 3:
            samples.append({"program": it["src"], "carve_out_classes": sorted(feats), "tree_equal": d["tree-equal"], "states": d["ran"]})
        if not d["tree-equal"] and not it.get("no_tie"):
            import re as _re2
            # identifiers standing alone as an operand (an undeclared C variable in the emitted text)
            bare = lambda t: set(_re2.findall(r'(?<![\w"&>.*])([A-Za-z_]\w*)(?=[,)])', t)) - {"pkt", "hi", "bundle", "true", "false", "IL_TRUE", "IL_FALSE"}
            if feats & {"const_cond", "fold_cmp"} and (bare(d["real"]) - bare(d["model"])):
                cnt["tree_diff_dead_arm_class"] += 1   # dead-arm removal left an undeclared operand variable in the text (listed C11 finding)
            else:
                tie_broken.append({"program": it["src"], "ast": json.dumps(it["ast"]), "model": d["model"][:3000], "real": d["real"][:3000], "carve_out_classes": sorted(feats), "fail": d.get("fail")})
        if d["tree-equal"] and (d.get("certified") == "1" or d.get("certified-sem") == "1" or d.get("certified-semx") == "1"):
            cnt["certified"] += 1
        if d.get("fail"):
            if d["tree-equal"] and (d.get("certified") == "1" or d.get("certified-sem") == "1" or d.get("certified-semx") == "1"):
                # soundness of the certificates: the model tree IS the real tree and the certificate (evaluated in Lean)
                # says the program is proved for all states - a failing sampled state means the carve-out is wrong
                viol.append({"what": "CERTIFIED program (proved for all states) with a failing sampled state: " + d["fail"] +
                                     " (the carve-out / certificate or the execution model is wrong)", "program": it["src"],
                             "ast": json.dumps(it["ast"]), "carve_out_classes": sorted(feats), "real_tree": d["real"][:3000]})
            elif feats & NOT_JUDGED:
                cnt["not_judged_unsequenced"] += 1
            elif feats & known_feats:
                for f in feats & known_feats:
                    known_by_feature[f] += 1
            else:
                viol.append({"what": "the emitted effect does not compute what the C text computes: " + d["fail"], "program": it["src"],
                             "ast": json.dumps(it["ast"]), "carve_out_classes": sorted(feats), "real_tree": d["real"][:3000],
                             "reproduce": f"Compiler(ArchEnum.HEXAGON).compile_c_stmt({it['src']!r}); interpret the returned effect from the reported state"})
    for it in items:
        if it.get("must_reject") and it.get("status") == "ok":
            viol.append({"what": f"{it['must_reject']} is compiled instead of being rejected", "program": it["src"], "emitted": it["text"]["READ_STATEMENTS"][:1500],
                         "reproduce": f"Compiler(ArchEnum.HEXAGON).compile_c_stmt({it['src']!r})"})
    viol.extend(sub_problems)
    # the tie: a real tree the model does not predict
    for tb in tie_broken[:3]:
        if tb["fail"]:
            viol.append({"what": "real output differs from the lowering model AND from the C semantics: " + tb["fail"], **tb})
    n_tie_only = len([t for t in tie_broken if not t["fail"]])
    # witnesses of the listed findings
    wit = [k for k in known_ids.values() if k.get("witness")]
    if wit:
        wa = []
        for k in wit:
            wa.append(k["witness"])
        wp = rc.parse_programs(wa)
        rc.close_pool()
        for k, pr in zip(wit, wp):
            ok_ = False
            if pr[0] == "ok":
                r = rc.transform_tree(c, pr[1])
                if r[0] == "ok":
                    wast = _detuple(json.loads(k["witness_ast"])) if k.get("witness_ast") else None
                    if wast is not None:
                        d = semcheck.parse_sem(Driver().run([sx(["sem", "asCode", semcheck.prog_sx(wast), Q(r[1]), 64, 7, []])])[0])
                        ok_ = bool(d.get("fail")) or d.get("parsed") is False
                        detail = d.get("fail")
            if ok_:
                res.known(f"{k['id']}: {k['what']} [witness: {k['witness']} — {detail}] ({k['site']})")
            else:
                res.notes.append(f"known finding {k['id']} no longer reproduces on its witness")

    # listed findings without a replayable one-line witness (they need registered routines): reported when this run hit them
    for k in known_ids.values():
        if not k.get("witness"):
            n_hit = sum(known_by_feature.get(f, 0) for f in k.get("feature_any", []))
            if n_hit:
                res.known(f"{k['id']}: {k['what']} [{n_hit} failing programs of this run, e.g. {k.get('witness_text', '')}] ({k['site']})")
            else:
                res.notes.append(f"known finding {k['id']} was not hit in this run")

    def search():
        for v in viol[:4]:
            res.violation(v)
        return len(viol)

    ok = proof_gate(res, st, search)
    if ok:
        for v in viol[:4]:
            res.violation(v)
        if n_tie_only and not viol:
            res.violation({"what": "the real compiler's output is no longer what the lowering model predicts (correspondence of Model/Compile.lean broken); no state was found on which the real output disagrees with the C semantics",
                           "examples": [t for t in tie_broken if not t["fail"]][:3]}, found_input=False)
    res.coverage.update({
        "evaluations": cnt["states_run"], "distinct_nontrivial": len({it["src"] for it in items if it.get("status") == "ok"}),
        "rule": "one evaluation = one (program, state) execution of the C semantics and of the REAL emitted effect in Lean; programs: exhaustive operator x type x type / conversion-context / literal families for this property plus generated clean and wild programs; distinct = distinct accepted program texts; states: boundary values and pseudo-random values for every register, immediate and memory cell",
        "programs": len(items), "accepted": sum(1 for it in items if it.get("status") == "ok"),
        "rejected": sum(1 for it in items if it.get("status") in ("parse-reject", "transform-reject")),
        "unmodelled_constructs": len([1 for it in items if it.get("status") == "ok"]) - len(reqs),
        "counts": dict(cnt), "tree_mismatches_without_semantic_failure": n_tie_only,
        "known_class_failures_by_carve_out_class": dict(known_by_feature), "violations_total": len(viol), "samples": samples,
    })
    res.assumptions += ["states where the C side is undefined (shift amount out of range, uninitialised read) or out of fuel are not judged",
                        "READ_REG/WRITE_REG/LOADW/STOREW and the QEMU helper macros follow the contract of DESIGN 3.2"]
    return res.finish(TB, f"cd lean && lake build RzilVerif.Props.{prop}")


def _detuple(x):
    if isinstance(x, list):
        y = [_detuple(v) for v in x]
        if y and isinstance(y[0], str) and y[0] in ("reg", "imm", "lit", "var", "cast", "un", "bin", "shift", "cmp", "log", "not", "tern", "macro",
                                                       "call", "post", "stmtexpr", "load", "decl", "assign", "store", "if", "for", "jump", "raw", "seqexpr", "vcall", "chain", "ret",
                                                       "exprstmt", "block", "andcmp", "intand", "callx", "xmacro"):
            # argument lists and statement lists stay lists
            return tuple(v if not (isinstance(v, tuple) and False) else v for v in y)
        return y
    return x
