from textprops import run_prop


def run(tier, replay=None):
    return run_prop("C11", tier, replay)
