"""C01 — shipped instruction behaviours are translated faithfully end to end.

Per part of every bundled definition (thorough: all 2181; quick: seeded stratified sample) and per bundled
sub-routine the run records, with the REAL parser/compiler:
  outcome (text / parser exception / transformer exception);
  the per-output verdicts of the Lean checkers on the raw text (sort soundness C10, well-formedness C11,
  ownership C12) — necessary conditions for executing the effect at all;
  for parts inside the modelled dialect: the elaborated AST (harness/elab.py, self-checked by printing it and
  parsing it again with the real parser: same Lark tree), whether the real tree equals the Lean lowering
  model's tree, whether the behaviour's CERTIFICATE holds (Props/C01.lean certified_correct: then the
  translation is correct for ALL states), and the Lean-executed C-vs-IL search on sampled states.
Buckets: proved for all states / correct on all sampled states (in a carve-out class or not) / listed known class
with a concrete failing state / unmodelled (counted by reason, never claimed) / violation.
"""
from __future__ import annotations

import collections
import json
import random
import re

import elab
import gen
import realcode as rc
import semcheck
import semprops
import textcheck
import translate
from common import *  # noqa

TB = ["Lean 4.33 kernel; axioms propext, Classical.choice, Quot.sound (audited per theorem)",
      "C side Model/CSem.lean, CSemH.lean and IL side Model/ILSem.lean are the specification (DESIGN 3.1/3.2)",
      "elaboration of the Lark tree into the model's AST (harness/elab.py), self-checked per behaviour by a print/parse round trip through the real parser",
      "lowering models Model/Compile.lean / CompileH.lean tied by tree equality per behaviour; bundled sub-routines: reference meaning Model/CSemH.lean builtinSub"]


def signatures():
    subs = {n: (ps, ret) for n, ps, ret in gen.CALLS}
    subs["revbit64"] = ([(False, 64)], (False, 64))
    macros = {n: (gen.MACRO_PARAMS[n], ret) for n, _, ret in gen.MACROS}
    return subs, macros


def tree_eq(a, b):
    return a == b


def run(tier, replay=None):
    res = Result("C01", tier)
    st = prepare("C01", translate=translate.run_all, extra_modules=["RzilVerif.Props.T2Sem", "RzilVerif.Props.CompileHEqv"])
    res.proof = st
    use_repo()
    beh = rc.load_behaviours()
    if replay:
        rp = json.load(open(replay))
        names = [rp["instruction"]] if rp.get("instruction") in beh else []
    elif tier == "thorough":
        names = sorted(beh)
    else:
        names = rc.sample_names(beh, seed(), per_group=3, per_feature=4)
    sub_sigs, macro_sigs = signatures()
    parsed = rc.parse_cached({n: beh[n] for n in names})
    c = rc.compiler("READ_STATEMENTS")
    subdefs = rc.sub_routine_defs(c)
    cnt = collections.Counter()
    unmodelled = collections.Counter()
    items = []          # one per part
    viol = []
    for name in names:
        pi = parsed[name]
        if pi.exception is not None:
            cnt["parse_rejected"] += 1
            continue
        r = rc.transform_all(c, {name: pi})[name]
        for i, (tree, text) in enumerate(zip(pi.asts, pi.behaviors)):
            it = {"insn": name, "part": i, "src0": text, "tree": tree}
            # elaboration is independent of the compiler's verdict
            try:
                opt0 = elab.OPTIONAL_HITS
                ast = elab.Elab(sub_sigs, macro_sigs).program(tree)
                it["optional_dialect"] = elab.OPTIONAL_HITS != opt0   # e.g. `unsigned long long`: may be rejected, must be right if accepted
                if semcheck.prog_sx(ast) is None:
                    raise elab.Unmodelled("construct outside the Lean AST")
                it["ast"] = ast
                it["src"] = gen.prog_src(ast)
                it["features"] = gen.features(ast)
                if semprops.explicit_rw_mixed(ast):
                    it["features"].add("explicit_rw_mixed")
            except elab.Unmodelled as e:
                it["unmodelled"] = str(e)
                unmodelled[re.sub(r"\b(of|identifier|macro|call) \w+", r"\1 *", str(e))] += 1
            except Exception as e:    # an elaborator bug must not masquerade as a verdict
                it["unmodelled"] = f"elaborator error {type(e).__name__}: {e}"
                unmodelled["elaborator error"] += 1
            if r["status"] != "ok":
                it["status"] = r["status"]
                it["exc"] = r.get("exc")
            else:
                it["status"] = "ok"
                it["text"] = {"READ_STATEMENTS": r["rzil"][i]}
            items.append(it)
        cnt["accepted" if r["status"] == "ok" else "transform_rejected"] += 1
    cnt["instructions"] = len(names)
    cnt["parts"] = len(items)
    # ---- self-check of the elaboration: print, parse again with the real parser, same tree
    el = [it for it in items if "ast" in it]
    reparsed = rc.parse_programs([it["src"] for it in el])
    rc.close_pool()
    for it, pr in zip(el, reparsed):
        if pr[0] != "ok" or not tree_eq(pr[1], it["tree"]):
            it["unmodelled"] = "print/parse round trip of the elaborated AST gives a different tree"
            unmodelled[it["unmodelled"]] += 1
            del it["ast"]
    # ---- within the modelled dialect the compiler must accept
    for it in items:
        if "ast" in it and it["status"] != "ok" and not it.get("optional_dialect"):
            viol.append({"what": f"{it['insn']} part {it['part']} stays within the supported dialect but is rejected: {it['status']} {it.get('exc')}",
                         "instruction": it["insn"], "program": it["src0"]})
    # ---- per-output checks on every accepted part (raw text, Lean checkers)
    pre = [sx(["def-sub", n_, ret, [[p_, s_] for p_, s_ in params], Q(text)]) for n_, ret, params, text in subdefs]
    acc = [it for it in items if it["status"] == "ok"]
    drv = Driver()
    reps = drv.run(pre + [sx(["text", Q(it["text"]["READ_STATEMENTS"])]) for it in acc])
    sub_reports = [textcheck.parse_report(r) for r in reps[:len(pre)]]
    known_text = [k for k in known_for("C01") if k.get("scope") in ("corpus", "sub")]
    for (n_, _, _, _), rep in zip(subdefs, sub_reports):
        for kk in ("c10", "c11", "c12"):
            for p_ in rep.get(kk) or []:
                k = [k for k in known_text if k.get("scope") == "sub" and k.get("name") == n_ and re.search(k["signature_re"], p_)]
                if k:
                    cnt["known:" + k[0]["id"]] += 1
                else:
                    viol.append({"what": f"compiled body of bundled sub-routine {n_}: {kk}: {p_}", "instruction": n_})
    for it, r in zip(acc, reps[len(pre):]):
        rep = textcheck.parse_report(r)
        cnt["parts_text_checked"] += 1
        for kk in ("c10", "c11", "c12"):
            for p_ in rep.get(kk) or []:
                k = [k for k in known_text if k.get("scope") == "corpus" and k.get("name") == it["insn"] and re.search(k["signature_re"], p_)]
                if k:
                    cnt["known:" + k[0]["id"]] += 1
                else:
                    viol.append({"what": f"{it['insn']} part {it['part']}: emitted text fails {kk}: {p_}", "instruction": it["insn"],
                                 "program": it["src0"], "emitted": it["text"]["READ_STATEMENTS"]})
    # ---- semantic check of the modelled parts
    sem_items = [it for it in acc if "ast" in it]
    nstates = 24 if tier == "quick" else 64
    reqs = semcheck.sem_requests(sem_items, nstates, seed() + 1, csubs=semprops.all_csubs())
    out = drv.run(pre + [r for _, r in reqs])[len(pre):]
    known_ids = {k["id"]: k for k in known_for("C01") if k.get("scope") == "generated"}
    known_feats = {f for k in known_ids.values() for f in k.get("feature_any", [])}
    buckets = collections.Counter()
    cert_detail = collections.Counter()
    by_class = collections.Counter()
    examples = {}
    for (i, _), rp_ in zip(reqs, out):
        it = sem_items[i]
        d = semcheck.parse_sem(rp_)
        if "error" in d or not d.get("parsed"):
            viol.append({"what": f"{it['insn']}: emitted text could not be read by the semantic driver", "instruction": it["insn"], "program": it["src0"]})
            continue
        cnt["states_run"] += d["ran"]
        cert0 = d.get("certified") == "1" or d.get("certified-sem") == "1"
        # certifiedSemX: the end-to-end theorem needs the extra assumption MsLow on extract64/sextract64 (Props/T2Sem.lean)
        cert = cert0 or d.get("certified-semx") == "1"
        if not d["tree-equal"]:
            buckets["tie_broken"] += 1
            viol.append({"what": f"{it['insn']} part {it['part']}: the real output is not what the lowering model predicts" +
                                 (f" AND differs from the C semantics: {d['fail']}" if d.get("fail") else " (no failing state found)"),
                         "instruction": it["insn"], "program": it["src0"], "model": d["model"][:2500], "real": d["real"][:2500],
                         "found": bool(d.get("fail"))})
            continue
        if d.get("fail"):
            if cert:
                # soundness of the certificates: a behaviour proved for all states must not have a failing sampled state
                buckets["certified_with_failing_state"] += 1
                viol.append({"what": f"{it['insn']} part {it['part']}: CERTIFIED (proved for all states) but a sampled state disagrees: {d['fail']} "
                                     "(the carve-out / certificate or the execution model is wrong)",
                             "instruction": it["insn"], "program": it["src0"], "ast": json.dumps(it["ast"]), "real_tree": d["real"][:2500]})
                continue
            if it["features"] & semprops.NOT_JUDGED:
                buckets["not_judged_unsequenced"] += 1
            elif it["features"] & known_feats:
                buckets["known_class_with_failing_state"] += 1
                for f in it["features"] & known_feats:
                    by_class[f] += 1
                    examples.setdefault(f, f"{it['insn']}: {d['fail']}")
            else:
                buckets["violation"] += 1
                viol.append({"what": f"{it['insn']} part {it['part']}: the emitted effect does not compute what the C text computes: {d['fail']}",
                             "instruction": it["insn"], "program": it["src0"], "ast": json.dumps(it["ast"]), "real_tree": d["real"][:2500]})
            continue
        cert_detail[d.get("cert-detail")] += 1
        it["_cert"] = (bool(cert), d.get("cert-detail"))
        if cert:
            buckets["proved_for_all_states"] += 1
            if not cert0:
                cnt["proved_for_all_states_only_under_MsLow"] += 1
            if len(examples.get("_certified", [])) < 6:
                examples.setdefault("_certified", []).append(it["insn"])
        else:
            buckets["correct_on_all_sampled_states"] += 1
    for k in known_ids.values():
        fs = set(k.get("feature_any", []))
        hit = [f for f in fs if by_class.get(f)]
        if hit:
            res.known(f"{k['id']}: {k['what']} [{sum(by_class[f] for f in hit)} corpus parts of this run, e.g. {examples[hit[0]]}] ({k['site']})")
    for k in known_text:
        if cnt.get("known:" + k["id"]):
            res.known(f"{k['id']}: {k['what']} ({k['site']})")

    def emit():
        for v in viol[:6]:
            res.violation({k_: v_ for k_, v_ in v.items() if k_ != "found"}, found_input=v.get("found", True))
        return len([v for v in viol if v.get("found", True)])

    if proof_gate(res, st, emit):
        emit()
    if os.environ.get("VERIF_DEBUG"):
        json.dump(viol, open("/tmp/c01_viol.json", "w"), indent=1, default=str)
        json.dump([{"insn": it["insn"], "part": it["part"], "src": it.get("src"), "cert": it["_cert"][0], "detail": it["_cert"][1]}
                   for it in sem_items if "_cert" in it], open("/tmp/c01_detail.json", "w"), indent=1)
    res.coverage.update({
        "evaluations": cnt["parts_text_checked"] + cnt["states_run"], "distinct_nontrivial": cnt["parts"],
        "rule": "one evaluation = one accepted corpus part analysed by the Lean per-output checkers, or one (part, state) execution of the C semantics and of the REAL emitted effect; distinct = behaviour parts of the run (thorough: every part of all 2181 definitions; quick: seeded stratified sample over instruction classes and features)",
        "counts": dict(cnt), "semantic_buckets": dict(buckets), "modelled_parts": len(sem_items),
        "unmodelled_by_reason": dict(unmodelled.most_common(40)), "known_class_failures_by_carve_out_class": dict(by_class),
        "certified_examples": examples.get("_certified", []),
        "certificate_conjuncts (ctx ok, WFStmts, WFES, CarveProgSem, HybFreeSs, HSameProg, CarveProgSem with low-bits flag)": dict(cert_detail), "violations_total": len(viol),
        "samples": [{"instruction": it["insn"], "program": it["src0"][:200], "status": it["status"], "modelled": "ast" in it} for it in items[:4]],
    })
    res.assumptions += ["parts outside the modelled dialect (reasons counted in unmodelled_by_reason) are checked per output only (sort/well-formedness/ownership), not semantically",
                        "states where the C side is undefined or out of fuel are not judged",
                        "float instructions and HVX are outside the model",
                        "proved_for_all_states: the certificate of the part evaluates to true in Lean (certified / certifiedSem / certifiedSemB / certifiedSemP: "
                        "theorems of Props/C01.lean, Props/T2Sem.lean for every macro interpretation with MsOK); counts.proved_for_all_states_only_under_MsLow of them "
                        "hold by certifiedSemX only, whose theorem (Sem.certifiedSemX_correct) assumes in addition MsLow: extract64/sextract64(v, start, len) do not depend on "
                        "the bits of v from start+len upwards (proved for the interpretation the driver executes with: Sem.msLow_macroSem)"]
    return res.finish(TB, "cd lean && lake build RzilVerif.Props.C01")
