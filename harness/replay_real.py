"""Debug helper: run one replay's program through the real compiler and print the emitted C."""
import json, sys
sys.path.insert(0, '/verif/harness')
import realcode as rc
import semprops
d = json.load(open(sys.argv[1]))
c = rc.compiler('READ_STATEMENTS')
src = d['program']
print(src)
if hasattr(semprops, 'install_subs'):
    semprops.install_subs(c)
pr = rc.parse_programs([src])[0]
r = rc.transform_tree(c, pr[1])
print(r[0]); print(r[1] if r[0]=='ok' else r)
