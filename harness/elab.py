"""Elaboration of a Lark parse tree of the real parser into the typed AST of the generator / Lean model
(harness/gen.py node shapes), for the part of the shortcode dialect the Lean lowering model covers.

`Unmodelled(reason)` is raised for everything else (counted and listed by C01, never judged).
Self-check used by C01: the AST printed by `gen.prog_src` and parsed again by the real parser must give the
same Lark tree, so the elaboration cannot silently restructure or drop anything.
"""
from __future__ import annotations

import re

import gen

INT = {"int8_t": (True, 8), "uint8_t": (False, 8), "int16_t": (True, 16), "uint16_t": (False, 16),
       "int32_t": (True, 32), "uint32_t": (False, 32), "int64_t": (True, 64), "uint64_t": (False, 64)}
BIN_RULES = {"additive_expr": "bin", "multiplicative_expr": "bin", "and_expr": "bin", "exclusive_or_expr": "bin",
             "inclusive_or_expr": "bin", "shift_expr": "shift", "relational_expr": "cmp", "equality_expr": "cmp",
             "logical_and_expr": "log", "logical_or_expr": "log"}
WIDE_ALIASES = {"UPCYCLE", "PKTCOUNT", "UTIMER"}


def gen_src(e):
    import gen
    return gen.src(e)


class TopSeq(list):
    """statements of a behaviour that is not ONE compound statement but a sequence of them (printed without outer braces)"""
    bare = True


class Unmodelled(Exception):
    pass


class JumpWithSemi(tuple):
    _semi = True


def is_tree(x):
    return hasattr(x, "data") and hasattr(x, "children")


def tok(x):
    return str(x)


def type_of_specifier(ts):
    """type_specifier node -> (spelling, (signed, width))"""
    ch = ts.children
    if len(ch) == 1 and is_tree(ch[0]):
        n = ch[0]
        if n.data == "c_size_type":
            w, s = tok(n.children[0]), tok(n.children[1])
            return f"size{w}{s}_t", (s == "s", int(w) * 8)
        if n.data == "c_int_type":
            s, w = tok(n.children[0]), tok(n.children[1])
            return f"{s}{w}_t", (s == "int", int(w))
        raise Unmodelled(f"type {n.data}")
    if len(ch) == 1:
        t = tok(ch[0])
        if t == "int":
            return "int", (True, 32)
        if t == "unsigned":
            return "unsigned", (False, 32)
        raise Unmodelled(f"type {t}")
    raise Unmodelled("composite type specifier")


OPTIONAL_HITS = 0


def type_of_specifier_list(items):
    """`unsigned int` (the only multi-word type name the transformer accepts) and `const T`"""
    flat = []
    for x in items:      # `unsigned long long` nests: specifiers(unsigned, specifiers(long, long))
        flat += list(x.children) if is_tree(x) and x.data in ("declaration_specifiers", "specifier_qualifier_list") else [x]
    items = flat
    raw = tuple((tok(x.children[0]) if len(x.children) == 1 and not is_tree(x.children[0]) else None) if is_tree(x) else tok(x) for x in items)
    std0 = {("unsigned", "long", "long"): (False, 64), ("long", "long"): (True, 64), ("signed", "long", "long"): (True, 64),
            ("unsigned", "long", "long", "int"): (False, 64), ("long", "long", "int"): (True, 64),
            ("unsigned", "char"): (False, 8), ("signed", "char"): (True, 8), ("unsigned", "short"): (False, 16), ("signed", "int"): (True, 32)}
    if raw in std0:   # spellings whose width is the same under every C data model (a bare `long` is not: left unmodelled)
        global OPTIONAL_HITS
        OPTIONAL_HITS += 1   # the compiler may reject these spellings (it does today); if it accepts them they mean what C says
        return " ".join(raw), std0[raw]
    sp = [type_of_specifier(x) if is_tree(x) else (tok(x), None) for x in items]
    if len(sp) == 2 and sp[0][0] == "unsigned" and sp[1][0] == "int":
        return "unsigned int", (False, 32)
    # multi-word spellings whose width is the same under every C data model (a bare `long` is not: 32 bit on Hexagon's own
    # ILP32, 64 bit on the LP64 hosts QEMU's helpers are compiled for - left unmodelled)
    words = tuple(x[0] for x in sp)
    std = {("unsigned", "long", "long"): (False, 64), ("long", "long"): (True, 64), ("signed", "long", "long"): (True, 64),
           ("unsigned", "long", "long", "int"): (False, 64), ("long", "long", "int"): (True, 64),
           ("unsigned", "char"): (False, 8), ("signed", "char"): (True, 8), ("unsigned", "short"): (False, 16), ("signed", "int"): (True, 32)}
    if words in std:
        return " ".join(words), std[words]
    if len(sp) == 2 and sp[0] == ("const", None) and sp[1][1] is not None:
        return "const " + sp[1][0], sp[1][1]
    raise Unmodelled("composite type specifier")


class Elab:
    def __init__(self, sub_sigs: dict, macro_sigs: dict):
        self.locals: dict[str, tuple] = {}
        self.subs = sub_sigs          # name -> (param types, ret type)
        self.macros = macro_sigs      # name -> (param types, ret type)
        self.vsubs = {n: (k, ps) for n, k, ps in gen.VOID_CALLS}   # void sub-routines: name -> (pass-through parameters, value parameter types)
        self.xsubs = dict(gen.XCALL_SIGS)   # value calls with pass-through arguments: name -> (number of them, value parameter types, return type)
        self.fresh = 0

    # ---------------------------------------------------------------- expressions
    def reg_type(self, cls, acc):
        w = 8 if cls == "P" else 32
        if cls not in "RCMNP":
            raise Unmodelled(f"register class {cls}")
        if len(acc) == 2:
            w *= 2
        return (True, w)

    def expr(self, n):
        if not is_tree(n):
            raise Unmodelled(f"bare token {n!r} in expression position")
        d = n.data
        ch = n.children
        if d == "reg":
            cls, acc = tok(ch[0]), tok(ch[1])
            return ("reg", f"{cls}{acc}V", self.reg_type(cls, acc))
        if d == "new_reg":
            cls, acc = tok(ch[0]), tok(ch[1])
            return ("reg", f"{cls}{acc}N", self.reg_type(cls, acc))
        if d == "explicit_reg":
            name = tok(ch[0])
            new = len(ch) > 1 and ch[1] is not None
            m = re.fullmatch(r"([A-Z])(\d+)(?::(\d+))?", name)
            if not m or m.group(1) not in "RPCM":
                raise Unmodelled(f"explicit register {name}")
            w = 8 if m.group(1) == "P" else 32
            if m.group(3):
                w *= 2
            return ("reg", name + ("_NEW" if new else ""), (True, w))
        if d == "reg_alias":
            name = tok(ch[0])
            new = len(ch) > 1 and ch[1] is not None
            return ("reg", "HEX_REG_ALIAS_" + name + ("_NEW" if new else ""), (False, 64 if name in WIDE_ALIASES else 32))
        if d == "imm":
            l = tok(ch[0])
            return ("imm", l + "iV", (l in "rRsS", 32))
        if d == "number":
            txt = tok(ch[0]) + (tok(ch[1]) if len(ch) > 1 and ch[1] is not None else "")
            body = txt.rstrip("uUlL")
            if re.fullmatch(r"0[0-7]+", body):
                raise Unmodelled("octal literal")
            try:
                v = int(body, 16) if body.lower().startswith("0x") else int(body)
            except ValueError:
                raise Unmodelled(f"literal {txt}")
            sfx = txt[len(body):].upper()
            if sfx not in ("", "U", "LL", "ULL"):
                raise Unmodelled(f"literal suffix {sfx}")
            return ("lit", txt, v, (sfx in ("", "LL"), 64 if "LL" in sfx else 32))
        if d == "identifier":
            name = tok(ch[0])
            if name in self.locals:
                return ("var", name, self.locals[name])
            if name == "EA" or name in ("i", "j", "k"):
                return ("var", name, (False, 32))
            raise Unmodelled(f"identifier {name}")
        if d == "cast_expr":
            l = self.cast_load(n)
            if l:
                return l
            tn = ch[0]
            if is_tree(tn) and tn.data == "specifier_qualifier_list":
                spelling, t = type_of_specifier_list(tn.children)
            elif not (is_tree(tn) and tn.data == "type_specifier"):
                raise Unmodelled("cast to a composite type name")
            else:
                spelling, t = type_of_specifier(tn)
            return ("cast", spelling, t, self.expr(ch[1]))
        if d == "unary_expr":
            op = tok(ch[0])
            if op == "!":
                return ("not", self.expr(ch[1]))
            if op in ("-", "~"):
                return ("un", op, self.expr(ch[1]))
            raise Unmodelled(f"unary {op}")
        if d in BIN_RULES:
            op = tok(ch[1])
            kind = BIN_RULES[d]
            if kind == "bin" and op not in ("+", "-", "*", "&", "|", "^"):
                raise Unmodelled(f"operator {op}")
            return (kind, op, self.expr(ch[0]), self.expr(ch[2]))
        if d == "conditional_expr":
            return ("tern", self.expr(ch[0]), self.expr(ch[1]), self.expr(ch[2]))
        if d == "postfix_expr":
            if len(ch) == 2 and not is_tree(ch[1]) and tok(ch[1]) in ("++", "--"):
                v = self.expr(ch[0])
                if v[0] != "var":
                    raise Unmodelled("postfix on a non-local")
                return ("post", v[1], tok(ch[1]), v[2])
            raise Unmodelled("postfix expression form")
        if d == "mem_load":
            # MEM_LOAD SIGN_TYPE BIT_WIDTH args ; only as operand of a cast (the model's `load` node)
            raise Unmodelled("mem_load without an enclosing cast")
        if d == "macro_expr":
            name = tok(ch[0])
            if name in gen.XMACROS:
                n_ext, ret = gen.XMACROS[name]
                args = [a for a in ch[1:] if a is not None]
                if len(args) != n_ext:
                    raise Unmodelled(f"macro {name} arity")
                return ("xmacro", name, [self.ext_arg(name, a) for a in args], ret)
            if name not in self.macros:
                raise Unmodelled(f"macro {name}")
            params, ret = self.macros[name]
            args = [self.expr(a) for a in ch[1:] if a is not None]
            if len(args) != len(params):
                raise Unmodelled(f"macro {name} arity")
            return ("macro", name, args, ret)
        if d == "sub_routine":
            name = tok(ch[0].children[0]) if is_tree(ch[0]) else tok(ch[0])
            if name == "sizeof" and len(ch) == 2:
                # `sizeof(x)`: a compile-time constant, ceil(width of x / 8); printed back as written
                a = self.expr(ch[1])
                if a[0] not in ("reg", "var", "imm"):
                    raise Unmodelled("sizeof of an expression")
                w = a[2][1]
                return ("lit", f"sizeof({gen_src(a)})", (w + 7) // 8, (True, 32))
            if name in self.vsubs:
                raise Unmodelled(f"void call of {name} used as a value")
            if name in self.xsubs:
                n_ext, params, ret = self.xsubs[name]
                args = [a for a in ch[1:] if a is not None]
                if len(args) != n_ext + len(params):
                    raise Unmodelled(f"call {name} arity")
                return ("callx", name, [self.ext_arg(name, a) for a in args[:n_ext]], [self.expr(a) for a in args[n_ext:]], ret)
            if name not in self.subs:
                raise Unmodelled(f"call of {name}")
            params, ret = self.subs[name]
            args = [self.expr(a) for a in ch[1:] if a is not None]
            if len(args) != len(params):
                raise Unmodelled(f"call {name} arity")
            return ("call", name, args, ret)
        if d == "gcc_extended_expr":
            return self.stmt_expr(n)
        if d == "assignment_expr":
            raise Unmodelled("assignment used as a value")
        raise Unmodelled(f"expression rule {d}")

    def cast_load(self, n):
        """((T)mem_load_<s|u><w>(EA))"""
        tn, inner = n.children
        if is_tree(inner) and inner.data == "mem_load" and is_tree(tn) and tn.data == "type_specifier":
            spelling, t = type_of_specifier(tn)
            ch = inner.children
            sg, w = tok(ch[1]), int(tok(ch[2]))
            arg = ch[3]
            if not (is_tree(arg) and arg.data == "identifier" and tok(arg.children[0]) == "EA"):
                raise Unmodelled("load address other than EA")
            return ("load", spelling, t, sg, w)
        return None

    def ext_arg(self, name, a):
        """a pass-through argument: an identifier (`bundle`, `pkt`, `HEX_REG_FIELD_USR_LPCFG`) or a register operand
        handed over by reference (`RxV`, `MuV`)"""
        if is_tree(a) and a.data == "identifier" and len(a.children) == 1:
            return tok(a.children[0])
        if is_tree(a) and a.data == "reg" and len(a.children) == 2:
            return f"{tok(a.children[0])}{tok(a.children[1])}V"
        raise Unmodelled(f"call {name}: pass-through argument is not an identifier or a register operand")

    def void_call(self, n):
        """sub_routine node of a registered void sub-routine -> (name, pass-through tokens, value arguments)"""
        ch = n.children
        name = tok(ch[0].children[0]) if is_tree(ch[0]) else tok(ch[0])
        if name not in self.vsubs:
            return None
        n_ext, params = self.vsubs[name]
        args = [a for a in ch[1:] if a is not None]
        if len(args) != n_ext + len(params):
            raise Unmodelled(f"call {name} arity")
        exts = []
        for a in args[:n_ext]:
            if not (is_tree(a) and a.data == "identifier" and len(a.children) == 1):
                raise Unmodelled(f"call {name}: pass-through argument is not an identifier")
            exts.append(tok(a.children[0]))
        return name, exts, [self.expr(a) for a in args[n_ext:]]

    def stmt_expr(self, n):
        # ({ T v = e; v; })  or ({ v = e; v; })  or ({ f(...); value; }) with a void sub-routine f
        ch = [c for c in n.children if c is not None]
        if len(ch) != 2:
            raise Unmodelled("statement-expression shape")
        items = self.flatten_items(ch[0])
        if len(items) != 1:
            raise Unmodelled("statement-expression with several statements")
        last = ch[1]
        it0 = items[0]
        inner0 = it0.children[0] if is_tree(it0) and it0.data == "block_item" and len(it0.children) == 1 else it0
        if is_tree(inner0) and inner0.data == "sub_routine":
            vc = self.void_call(inner0)
            if vc is not None:
                return ("seqexpr", vc[0], vc[1], vc[2], self.expr(last))
        if not (is_tree(last) and last.data == "identifier"):
            raise Unmodelled("statement-expression value is not a variable")
        v = tok(last.children[0])
        it = items[0]
        inner = it.children[0] if is_tree(it) and it.data == "block_item" else it
        if is_tree(inner) and inner.data == "declaration":
            st = self.declaration(inner)
            if st[0] != "decl" or st[3] != v or st[4] is None:
                raise Unmodelled("statement-expression declaration shape")
            return ("stmtexpr", st[1], st[2], v, st[4], True)
        if is_tree(inner) and inner.data == "assignment_expr":
            lhs, op, rhs = inner.children
            if tok(op) != "=" or not (is_tree(lhs) and lhs.data == "identifier" and tok(lhs.children[0]) == v) or v not in self.locals:
                raise Unmodelled("statement-expression assignment shape")
            t = self.locals[v]
            name = [k for k, tt in INT.items() if tt == t][0]
            return ("stmtexpr", name, t, v, self.expr_or_load(rhs), False)
        raise Unmodelled("statement-expression body")

    def expr_or_load(self, n):
        return self.expr(n)

    # ---------------------------------------------------------------- statements
    def flatten_items(self, n):
        if is_tree(n) and n.data == "block_item_list":
            out = []
            for c in n.children:
                out += self.flatten_items(c)
            return out
        return [n]

    def declaration(self, n):
        ch = n.children
        if is_tree(ch[0]) and ch[0].data == "declaration_specifiers":
            spelling, t = type_of_specifier_list(ch[0].children)
        elif not (is_tree(ch[0]) and ch[0].data == "type_specifier"):
            raise Unmodelled("declaration specifiers")
        else:
            spelling, t = type_of_specifier(ch[0])
        if len(ch) == 2 and not is_tree(ch[1]):
            name = tok(ch[1])
            self.locals[name] = t
            return ("decl", spelling, t, name, None)
        if len(ch) == 2 and is_tree(ch[1]) and ch[1].data == "init_declarator":
            name = tok(ch[1].children[0])
            e = self.expr_or_load(ch[1].children[1])
            self.locals[name] = t
            return ("decl", spelling, t, name, e)
        raise Unmodelled("declaration shape")

    @staticmethod
    def drop_jump_semicolons(stmts):
        """`JUMP(x)` carries no semicolon of its own in the grammar: the printer's `JUMP(x);` stands for the jump and
        the empty statement after it."""
        out = []
        for s in stmts:
            if s == ("raw", ";") and out and out[-1][0] == "jump" and not getattr(out[-1], "_semi", False):
                out[-1] = JumpWithSemi(out[-1])
                continue
            out.append(s)
        if any(s[0] == "jump" and not getattr(s, "_semi", False) for s in out):
            raise Unmodelled("JUMP without a following semicolon")
        return [tuple(s) for s in out]

    def block(self, n):
        """a statement used as a body: list of statements"""
        if is_tree(n) and n.data == "compound_stmt" and not n.children:
            return []      # `{ }`: printed back as an empty pair of braces by `gen.stmt_src`
        if is_tree(n) and n.data == "block_item_list":
            out = []
            for it in self.flatten_items(n):
                out += self.stmt(it)
            return self.drop_jump_semicolons(out)
        return self.drop_jump_semicolons(self.stmt(n))

    def lhs(self, n):
        e = self.expr(n)
        if e[0] not in ("reg", "var", "imm"):   # imm: an assignable immediate (`riV = riV & ~3`)
            raise Unmodelled("assignment target")
        return e

    def stmt(self, n) -> list:
        if not is_tree(n):
            raise Unmodelled(f"token statement {n!r}")
        d = n.data
        ch = n.children
        if d == "block_item":
            if is_tree(ch[0]) and ch[0].data == "block_item":
                # `{ { x; } }`: a compound statement whose only item is a compound statement with one item
                return [("block", self.drop_jump_semicolons(self.stmt(ch[0])))]
            return self.stmt(ch[0])
        if d == "block_item_list":
            return [("block", self.block(n))]
        if d == "declaration":
            return [self.declaration(n)]
        if d == "expr_stmt":
            if not ch:
                return [("raw", ";")]
            raise Unmodelled("expr_stmt shape")
        if d == "cancel_slot_stmt":
            return [("raw", "cancel_slot;")]
        if d == "assignment_expr":
            l, op, r = ch
            op = tok(op)
            if op in ("/=", "%="):
                raise Unmodelled(f"operator {op}")
            if is_tree(r) and r.data == "assignment_expr":
                l2, op2, r2 = r.children
                if is_tree(r2) and r2.data == "assignment_expr":
                    raise Unmodelled("chained assignment of depth 3")
                if op != "=":
                    raise Unmodelled("compound outer chained assignment")
                return [("chain", self.lhs(l), self.lhs(l2), tok(op2), self.expr_or_load(r2))]
            return [("assign", self.lhs(l), op, self.expr_or_load(r))]
        if d == "mem_store":
            w = int(tok(ch[2]))
            va, data = ch[3], ch[4]
            if not (is_tree(va) and va.data == "identifier" and tok(va.children[0]) == "EA"):
                raise Unmodelled("store address other than EA")
            return [("store", w, None, self.expr_or_load(data))]
        if d == "jump_stmt":
            j = ch[0]
            if is_tree(j) and j.data == "jump":
                if len(j.children) == 2:
                    return [("jump", self.expr_or_load(j.children[1]))]
                raise Unmodelled("nop")
            if not is_tree(j) and tok(j) == "return" and len(ch) == 2:
                return [("ret", self.expr_or_load(ch[1]))]
            raise Unmodelled(f"jump statement {tok(j) if not is_tree(j) else j.data}")
        if d == "selection_stmt":
            if tok(ch[0]) != "if":
                raise Unmodelled("switch")
            c = self.expr_or_load(ch[1])
            t = self.block(ch[2])
            e = self.block(ch[4]) if len(ch) > 3 else None
            bare = []
            # a body written without braces (`if (c) x = 1;`) is a bare statement node, not a block_item
            if is_tree(ch[2]) and ch[2].data not in ("block_item", "block_item_list") and len(t) == 1:
                bare.append("then")
            if e is not None and is_tree(ch[4]) and ch[4].data not in ("block_item", "block_item_list") and len(e) == 1:
                bare.append("else")
            return [("if", c, t, e, tuple(bare))] if bare else [("if", c, t, e)]
        if d == "iteration_stmt":
            if tok(ch[0]) != "for" or len(ch) != 5:
                raise Unmodelled("loop form")
            init, cond, step, body = ch[1], ch[2], ch[3], ch[4]
            if not (is_tree(init) and init.data == "assignment_expr"):
                raise Unmodelled("loop initialisation")
            v = self.expr(init.children[0])
            z = self.expr(init.children[2])
            if v[0] != "var" or tok(init.children[1]) != "=" or z[0] != "lit" or z[2] != 0 or z[1] != "0":
                raise Unmodelled("loop initialisation")
            if not (is_tree(cond) and cond.data == "relational_expr" and tok(cond.children[1]) == "<"):
                raise Unmodelled("loop condition form")
            cv = self.expr(cond.children[0])
            if cv != v:
                raise Unmodelled("loop condition form")
            bound = self.expr(cond.children[2])
            if not (is_tree(step) and step.data == "postfix_expr" and tok(step.children[1]) == "++" and self.expr(step.children[0]) == v):
                raise Unmodelled("loop step form")
            if v[2] != (False, 32):
                return [("for", v[1], bound, self.block(body), None, 0, v[2])]
            return [("for", v[1], bound, self.block(body))]
        if d in ("sub_routine", "postfix_expr", "gcc_extended_expr", "imm", "reg", "identifier", "number", "new_reg", "macro_expr"):
            if d == "sub_routine":
                name = tok(ch[0].children[0]) if is_tree(ch[0]) else tok(ch[0])
                if name == "STORE_SLOT_CANCELLED":
                    return [("raw", "STORE_SLOT_CANCELLED(pkt, slot);")]
                vc = self.void_call(n)
                if vc is not None:
                    return [("vcall", vc[0], vc[1], vc[2])]
            return [("exprstmt", self.expr(n))]
        raise Unmodelled(f"statement rule {d}")

    def program(self, tree) -> list:
        if tree.data != "fbody":
            raise Unmodelled("not a function body")
        if len(tree.children) > 1:
            # a behaviour that is a SEQUENCE of compound statements (`{} { if (...) {...} }`, the start rule is stmt*):
            # each member is kept as its own block, the program is printed without an enclosing pair of braces
            out = TopSeq()
            for c in tree.children:
                if is_tree(c) and c.data == "compound_stmt" and not c.children:
                    out.append(("raw", "{}"))
                else:
                    body = []
                    for it in self.flatten_items(c):
                        body += self.stmt(it)
                    out.append(("block", self.drop_jump_semicolons(body)))
            return out
        out = []
        for c in tree.children:
            for it in self.flatten_items(c):
                out += self.stmt(it)
        # a behaviour is one compound statement: `{ ... }` gives one block_item_list
        return self.drop_jump_semicolons(out)
