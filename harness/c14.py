"""C14 — compilation results do not depend on history or on earlier failures.

Theorems (lean/RzilVerif/Props/C14.lean): table facts about reset()/clear()/entry points regenerated from the
source (state_fields_covered: every mutable field is reset, configuration, the renaming-equivariant counter or
the listed leak), tReset_clean, insn_entry_clean / insn_history_free (ALL histories), history_free_partial,
the refuted full statement with witnesses (compile_c_stmt after a failed compile_c_stmt; preds_written across
instances), history_free_fixed for the repaired machine.
Tie: translator + correspondence: random histories over the public entry points on several Compiler instances
(failing inputs interleaved at random positions); the last call's real output is compared with a fresh
instance's output (the property itself) and with the Session model's prediction.
"""
from __future__ import annotations

import random
import re

from common import *  # noqa
import gen
import realcode as rc
import translate

PROP = "C14"
TB = [
    "Lean 4.33 kernel; axioms propext, Classical.choice, Quot.sound (audited per theorem)",
    "translator gen_callbacks (Python ast): what reset()/clear() clear, where entry points reset, class-level attributes",
    "Session model (Model/Session.lean): the per-behaviour lowering is abstracted to 'everything in the mutable state when the behaviour ends is emitted'",
    "harness: history generation, normalisation (comment lines dropped, h_tmpN renamed by first occurrence), diffing; state inside lark is not modelled",
]
FAIL_PARSE = ["{ RdV = ; }", "{", "{ RdV = RsV @ 1; }"]
# failures inside a handler that has already raised an attribute flag while no operand is registered yet
FAIL_EARLY = ["{ tmp = mem_load_s32(undeclared_addr); }", "{ mem_store_u32(undeclared_addr, undeclared_val); }", "{ JUMP(undeclared_target); }", "{ OsN; }",
              "{ if (undeclared_c) { undeclared_x = 1; } }", "{ P0 = undeclared_v; }"]
# compile-time folding that rewrites a type object in place (unary minus of a folded constant of mixed literal types)
FOLDERS = ["{ RdV = -(1 + 1U); }", "{ RddV = -(2 * 4U); }", "{ RddV = -(1U + 2ULL); }", "{ RdV = ~(1 + 1U); }", "{ RddV = -(1LL + 1U); }"]
TYPE_PROBES = ["{ RdV = (RsV > 5U); }", "{ RddV = RsV + 5U; }", "{ RddV = RssV + 5ULL; }", "{ PdV = (RsV < RtV); }", "{ RddV = RsV * 3LL; }"]
FAIL_XFORM = ["{ RdV = foo(RsV); }", "{ EA = RsV; mem_store_u32(EA, RtV); while (RsV) { RdV = 1; } }", "{ P1 = 1; RdV = RsV->x; }",
              "{ RdV = siV + unknown_var; }", "{ i = 0; i++; RdV = bar(RsV); }", "{ float f = 1; RdV = 1; }", "{ RdV = mem_load_s16(RsV) + 1; }"]
# behaviours with several value-producing operations: compiled over and over on ONE long-lived instance, so that the
# never-reset temporary counter passes every alignment (…8/9, 9/10, 10/11 …, 99/100) while they are compiled
SWEEP = ["{ i = 0; k = 5; i++; k--; RdV = i + k; }", "{ clz32(RsV); clo32(RtV); RdV = 1; }",
         "{ i = 1; RdV = (i++ > 0) ? clz32(i) : 7; }", "{ i = 2; int32_t a = i++ + clz32(RsV); RdV = a + i--; }",
         "{ i = 0; RdV = ({ int32_t q = i++; q; }) + i++; }", "{ i = 0; i++; }"]
PROBES = ["{ RdV = RsV + 1; }", "{ PdV = RsV; }", "{ if (RsV) { RdV = siV; } }", "{ RdV = clz32(RsV) + RtV; }", "{ EA = RsV; mem_store_u16(EA, RtV); }",
          "{ i = 0; RdV = i++; }", "{ int8_t a = RsV; RddV = a; }",
          "{ EA = RsV; RdV = ((int32_t)mem_load_s16(EA)); }", "{ EA = RsV; RdV = ((int32_t)mem_load_u16(EA)); }", "{ EA = RsV; RddV = ((int64_t)mem_load_s32(EA)); }",
          "{ RddV = conv_round(RsV, 1); }", "{ int64_t v = conv_round(RsV, 1); RddV = v; }", "{ RddV = clz32(RsV); }", "{ RddV = RssV + clz32(RtV); }"]


def norm(text: str) -> str:
    lines = [l for l in text.split("\n") if l.strip() and not l.strip().startswith("//")]
    t = "\n".join(lines)
    names = []
    for m in re.finditer(r"h_tmp\d+", t):
        if m.group(0) not in names:
            names.append(m.group(0))
    for i, n in enumerate(names):
        t = re.sub(rf"\b{n}\b", f"h_tmp#{i}", t)
    return t


def _ref_worker(args):
    """Runs in a process forked from the pristine parent (nothing compiled yet): fresh Compiler, one call."""
    kind, src = args
    import realcode as rc2
    from rzilcompiler.Parser import ParsedInsn

    c = rc2.compiler("READ_STATEMENTS", fresh=True)
    try:
        with rc2.quiet():
            if kind == "cstmt":
                return ("ok", norm(c.compile_c_stmt(src)), None)
            pi = ParsedInsn("GEN_insn", [c.parser.parse(src)], [src])
            ri = c.transform_insn("GEN_insn", pi)
            return ("ok", norm(ri.rzil[0]), list(ri.meta[0]))
    except Exception as e:
        return ("exc", type(getattr(e, "orig_exc", e)).__name__, None)


def preds_of(src: str):
    return sorted({int(m) for m in re.findall(r"\bP([0-3])\s*=[^=]", src)})


def writes_pred(src: str) -> bool:
    return bool(re.search(r"\bP([0-3]|[a-z]V)\s*=[^=]", src))


def run(tier: str, replay=None) -> int:
    res = Result(PROP, tier)
    st = prepare(PROP, translate=translate.run_all)
    res.proof = st
    use_repo()
    from rzilcompiler.Parser import ParsedInsn
    from rzilcompiler.HexagonExtensions import HexagonTransformerExtension as HX

    rng = random.Random(seed() * 9173 + 14)
    g = gen.Gen(rng, gen.Cfg(max_stmts=3, max_depth=2, hybrids=0.15, explicit_regs=0.15))
    ok_progs = list(PROBES) + ["{ P0 = RsV; }", "{ P3 = 1; RdV = P3; }"] + [gen.prog_src(g.program()) for _ in range(30 if tier == "quick" else 200)]
    n_hist = 14 if tier == "quick" else 120
    parsed = dict(zip(ok_progs, rc.parse_programs(ok_progs)))
    rc.close_pool()
    ok_progs = [p for p in ok_progs if parsed[p][0] == "ok"]

    # reference outputs: each in its own process forked NOW, before anything was compiled in this process
    import multiprocessing as mp
    probe_srcs = PROBES + ok_progs[:10] + SWEEP + TYPE_PROBES + FOLDERS
    tasks = [(k, s_) for s_ in probe_srcs for k in ("cstmt", "insn")]
    with mp.get_context("fork").Pool(16, maxtasksperchild=1) as pool:
        _ref = dict(zip(tasks, pool.map(_ref_worker, tasks, chunksize=1)))

    def fresh_output(kind, src):
        """the reference: the same call on a fresh Compiler instance in a pristine class state"""
        if (kind, src) not in _ref:
            _ref[(kind, src)] = _fresh_output(kind, src)
        return _ref[(kind, src)]

    def _fresh_output(kind, src):
        saved = list(HX.preds_written)
        HX.preds_written.clear()
        try:
            c = rc.compiler("READ_STATEMENTS", fresh=True)
            return do_call(c, kind, src)
        finally:
            HX.preds_written.clear()
            HX.preds_written.extend(saved)

    def do_call(c, kind, src):
        try:
            with rc.quiet():
                if kind == "cstmt":
                    return ("ok", norm(c.compile_c_stmt(src)), None)
                if kind == "insn":
                    pi = ParsedInsn("GEN_insn", [c.parser.parse(src)], [src])
                    ri = c.transform_insn("GEN_insn", pi)
                    return ("ok", norm(ri.rzil[0]), list(ri.meta[0]))
                if kind == "sub":
                    name = f"gen_sub_{abs(hash(src)) % 100000}"
                    c.sub_routines.pop(name, None)
                    sr = c.compile_sub_routine(name, "uint32_t", ["uint32_t a"], src)
                    return ("ok", norm(sr.body), None)
        except Exception as e:
            return ("exc", type(getattr(e, "orig_exc", e)).__name__, None)

    drv = Driver()
    viol, known = [], {"cstmt-after-failed-cstmt": 0, "preds": 0}
    evals, harmless_dirty = 0, 0
    samples = []
    shapes = set()
    # directed histories first: every failing input immediately before a probe, through both entry points
    directed = [[(0, ek, f)] for f in FAIL_XFORM for ek in ("cstmt", "insn")] + [[(0, "insn", a), (0, "insn", b)] for a, b in zip(ok_progs[:4], ok_progs[4:8])]
    if tier == "quick":
        rng.shuffle(directed)
        directed = directed[:8]
    fam = [p_ for p_ in PROBES if "mem_load" in p_ or "conv_round" in p_ or "clz32" in p_]
    n_hist += len(directed)
    for h in range(n_hist):
        HX.preds_written.clear()
        comps = [rc.compiler("READ_STATEMENTS", fresh=True)]
        if rng.random() < 0.4:
            comps.append(rc.compiler("READ_STATEMENTS", fresh=True))
        hist, model_calls = [], {i: [] for i in range(len(comps))}
        plan = directed[h] if h < len(directed) else None
        for step in range(len(plan) if plan else rng.randint(0, 7)):
            ci = rng.randrange(len(comps))
            k = rng.random()
            if plan:
                ci, kind, src = plan[step]
            elif k < 0.3:
                kind, src = "cstmt", rng.choice(ok_progs)
            elif k < 0.45:
                kind, src = "cstmt", rng.choice(FAIL_XFORM)
            elif k < 0.55:
                kind, src = "cstmt", rng.choice(FAIL_PARSE)
            elif k < 0.8:
                kind, src = "insn", rng.choice(ok_progs)
            elif k < 0.9:
                kind, src = "insn", rng.choice(FAIL_XFORM)
            else:
                kind, src = "sub", rng.choice(["{ return a + 1; }", "{ uint32_t x = a; return clz32(x); }"])
            r = do_call(comps[ci], kind, src)
            hist.append((ci, kind, src, r[0]))
            beh = ["ok"] + preds_of(src) if r[0] == "ok" else (["fail0"] if src in FAIL_PARSE else ["fail"] + preds_of(src))
            for j in model_calls:   # preds are class-level: every instance sees the event; other state is per instance
                if j == ci:
                    model_calls[j].append([kind if kind != "sub" else "sub", beh] if kind != "insn" else ["insn", beh])
                elif r[0] == "ok" and preds_of(src):
                    model_calls[j].append(["sub", ["ok"] + preds_of(src)])
        ci = rng.randrange(len(comps))
        kind = rng.choice(["cstmt", "insn"])
        src = rng.choice(probe_srcs)
        if h < len(directed):
            ci = 0
        if replay:
            rp = json.load(open(replay))
            if "probe" in rp:
                pass
        real = do_call(comps[ci], kind, src)
        ref = fresh_output(kind, src)
        evals += 1
        shapes.add(tuple((x[1], x[3]) for x in hist) + (kind,))
        last = [kind, ["ok"] + preds_of(src)] if kind == "cstmt" else ["insn", ["ok"] + preds_of(src)]
        m = parse_sx(drv.run([sx(["session"] + model_calls[ci] + [last])])[0])
        model_same = m[0][1] == "1"
        model_clean = m[1][1] == "1"
        same = real[:2] == ref[:2] and (real[2] == ref[2])
        if len(samples) < 3:
            samples.append({"history": [(x[1], x[3], x[2][:40]) for x in hist], "probe": [kind, src], "same_as_fresh": same, "model_predicts_same": model_same})
        if same:
            if not model_same:
                harmless_dirty += 1
            continue
        # the property fails on this history: attribute it
        prev_same_inst = [x for x in hist if x[0] == ci]
        last_nonsub = [x for x in prev_same_inst if x[1] != "sub"]
        after_failed_cstmt = bool(last_nonsub) and last_nonsub[-1][1] == "cstmt" and last_nonsub[-1][3] == "exc" and last_nonsub[-1][2] not in FAIL_PARSE
        only_meta_preds = real[1] == ref[1] and real[2] is not None and ref[2] is not None and \
            all(x.startswith("HEX_IL_INSN_ATTR_WRITE_P") for x in set(real[2]) ^ set(ref[2]))
        payload = {"what": "output after this history differs from the output of a fresh instance", "history": hist, "probe": [kind, src],
                   "real": real, "fresh": ref, "model_predicts_same": model_same,
                   "reproduce": "replay the listed calls on fresh Compiler instances (index = instance), then the probe call; compare with a fresh instance"}
        if kind == "cstmt" and after_failed_cstmt and not model_clean:
            known["cstmt-after-failed-cstmt"] += 1
        elif only_meta_preds and not model_same:
            known["preds"] += 1
        else:
            viol.append(payload)
    HX.preds_written.clear()

    # ---- long-lived instances: the same behaviours again and again while the temporary counter grows.
    # Each swept behaviour consumes two temporaries per compilation: with both parities of the starting counter every
    # pair of consecutive numbers (…, 8/9, 9/10, …, 99/100, 100/101) is used by it once.
    sweep_steps = 0
    stop = False
    for si, src in enumerate(SWEEP[:3]):
        for parity in (0, 1):
            kind = ("cstmt", "insn")[(si + parity) % 2]
            c = rc.compiler("READ_STATEMENTS", fresh=True)
            hist = []
            if parity:
                r0 = do_call(c, kind, SWEEP[5])       # one temporary
                hist.append((0, kind, SWEEP[5], r0[0]))
            ref = fresh_output(kind, src)
            for step in range(54 if tier == "quick" else 520):
                if step % 9 == 8:
                    f = FAIL_XFORM[(step // 9) % len(FAIL_XFORM)]
                    hist.append((0, kind, f, do_call(c, kind, f)[0]))
                real = do_call(c, kind, src)
                sweep_steps += 1
                evals += 1
                if real[:2] != ref[:2] or real[2] != ref[2]:
                    viol.append({"what": f"output of call {len(hist) + 1} on a long-lived instance differs from the output of a fresh instance (beyond a renaming of h_tmpN)",
                                 "history": list(hist), "probe": [kind, src], "real": real, "fresh": ref,
                                 "reproduce": "replay the listed calls in order on ONE fresh Compiler instance, then the probe call; compare with a fresh instance"})
                    stop = True
                    break
                hist.append((0, kind, src, real[0]))
            if stop:
                break
        if stop:
            break
    # the type-sensitive family (loads of both signednesses, the same routine's result used at several widths) in both orders
    # on one instance each: a type object shared or cached between compilations makes the later ones depend on the earlier
    fam2 = FOLDERS + TYPE_PROBES
    for order, kind in ((fam, "cstmt"), (fam[::-1], "insn"), (fam2, "cstmt"), (fam2[::-1], "insn")):
        c = rc.compiler("READ_STATEMENTS", fresh=True)
        hist = []
        for src in order + order:
            real = do_call(c, kind, src)
            ref = fresh_output(kind, src)
            evals += 1
            if real[:2] != ref[:2] or real[2] != ref[2]:
                viol.append({"what": "output differs from the output of a fresh instance after behaviours using the same type family",
                             "history": list(hist), "probe": [kind, src], "real": real, "fresh": ref,
                             "reproduce": "replay the listed calls in order on ONE fresh Compiler instance, then the probe call; compare with a fresh instance"})
                break
            hist.append((0, kind, src, real[0]))
    # architectural aliases and explicit registers, read and written, through both entry points on ONE instance (first call
    # through compile_c_stmt, then alternating): an operand object that survives a compilation changes the later ones
    alias_fam = ["{ HEX_REG_ALIAS_USR = RsV; }", "{ RdV = HEX_REG_ALIAS_USR; }", "{ RdV = HEX_REG_ALIAS_LR + HEX_REG_ALIAS_SP; }", "{ HEX_REG_ALIAS_LR = RsV; }",
                 "{ RdV = HEX_REG_ALIAS_LR; ReV = HEX_REG_ALIAS_LR; }", "{ R31 = RsV; }", "{ RdV = R31 + P0; }", "{ P0 = RsV; RdV = P0; }", "{ RdV = HEX_REG_ALIAS_USR; }",
                 "{ HEX_REG_ALIAS_SP = HEX_REG_ALIAS_SP + 8; }", "{ RdV = HEX_REG_ALIAS_PC; }", "{ RdV = HEX_REG_ALIAS_SP; }"]
    for order, kinds in ((alias_fam, ("cstmt", "insn")), (alias_fam[::-1], ("cstmt", "cstmt")), (alias_fam[::-1], ("insn", "cstmt")), (alias_fam, ("insn", "insn"))):
        HX.preds_written.clear()
        c = rc.compiler("READ_STATEMENTS", fresh=True)
        hist = []
        for i_, src in enumerate(order + order):
            kind = kinds[i_ % 2]
            real = do_call(c, kind, src)
            HX.preds_written.clear()    # (class-level predicate list: the listed finding, not this stage's subject)
            ref = fresh_output(kind, src)
            evals += 1
            if real[:2] != ref[:2]:
                viol.append({"what": "output differs from the output of a fresh instance after behaviours naming the same alias / explicit register",
                             "history": list(hist), "probe": [kind, src], "real": real, "fresh": ref,
                             "reproduce": "replay the listed calls in order on ONE fresh Compiler instance, then the probe call; compare with a fresh instance"})
                break
            hist.append((0, kind, src, real[0]))
    # bundled instructions by NAME through transform_insn on one instance, the instructions of noped_insns.json among
    # ordinary ones, repeated and in both orders: each answer is the answer of a fresh instance
    try:
        noped = json.load(open(os.path.join(REPO, "Resources/Hexagon/noped_insns.json")))["noped"]
    except Exception:
        noped = []
    cbeh = rc.load_behaviours()
    ordinary = rng.sample(sorted(n for n, b in cbeh.items() if len(b) == 1 and len(b[0]) < 160 and not n.startswith("V6_") and n not in noped), 4)
    named = [n for n in noped if n in cbeh]
    cparsed = rc.parse_cached({n: cbeh[n] for n in named + ordinary})

    def named_call(c, n):
        try:
            with rc.quiet():
                ri = c.transform_insn(n, cparsed[n])
            return ("ok", [norm(t) for t in ri.rzil], [list(m) for m in ri.meta])
        except Exception as e:
            return ("exc", type(getattr(e, "orig_exc", e)).__name__, None)

    seqs = [named + named[::-1] + named, [ordinary[0]] + named + [ordinary[1]] + named[::-1], [x for n in named for x in (n, n, ordinary[2])]]
    fresh_named = {}
    for seq_ in seqs:
        c = rc.compiler("READ_STATEMENTS", fresh=True)
        hist = []
        for n in seq_:
            if n not in fresh_named:
                fresh_named[n] = named_call(rc.compiler("READ_STATEMENTS", fresh=True), n)
            real = named_call(c, n)
            evals += 1
            if real != fresh_named[n]:
                viol.append({"what": f"transform_insn({n!r}) after this history differs from the answer of a fresh instance",
                             "history": list(hist), "probe": ["transform_insn", n], "real": [real[0], str(real[1])[:400], real[2]], "fresh": [fresh_named[n][0], str(fresh_named[n][1])[:400], fresh_named[n][2]],
                             "reproduce": "on ONE fresh Compiler instance call transform_insn for the listed names in order (parse trees from Parser.parse), then for the probe name; compare with a fresh instance"})
                break
            hist.append((0, "transform_insn", n, real[0]))
    # every failing input directly in front of a probe, on one instance per entry point: the compilation after a failure
    # must be the compilation of a fresh instance (code AND attributes)
    for kind in ("cstmt", "insn"):
        c = rc.compiler("READ_STATEMENTS", fresh=True)
        hist = []
        stop_ = False
        for i_, f in enumerate(FAIL_EARLY + FAIL_XFORM):
            for fk in ("cstmt", "insn"):
                hist.append((0, fk, f, do_call(c, fk, f)[0]))
                src = PROBES[(i_ + (fk == "insn")) % 7]
                real = do_call(c, kind, src)
                ref = fresh_output(kind, src)
                evals += 1
                if real[:2] != ref[:2] or real[2] != ref[2]:
                    viol.append({"what": "the compilation directly after a FAILED compilation differs from the compilation on a fresh instance",
                                 "history": list(hist)[-6:], "probe": [kind, src], "real": real, "fresh": ref,
                                 "reproduce": "on a fresh Compiler instance run the last listed (failing) call, then the probe call; compare with a fresh instance"})
                    stop_ = True
                    break
                hist.append((0, kind, src, real[0]))
            if stop_:
                break
    # mixed behaviours on one instance
    for kind in ("cstmt", "insn"):
        c = rc.compiler("READ_STATEMENTS", fresh=True)
        hist = []
        for step in range(24 if tier == "quick" else 200):
            src = SWEEP[step % len(SWEEP)] if step % 7 != 6 else rng.choice(FAIL_XFORM)
            real = do_call(c, kind, src)
            if src in SWEEP:
                ref = fresh_output(kind, src)
                sweep_steps += 1
                evals += 1
                if real[:2] != ref[:2] or real[2] != ref[2]:
                    viol.append({"what": f"output of call {step + 1} on a long-lived instance differs from the output of a fresh instance (beyond a renaming of h_tmpN)",
                                 "history": list(hist), "probe": [kind, src], "real": real, "fresh": ref,
                                 "reproduce": "replay the listed calls in order on ONE fresh Compiler instance, then the probe call; compare with a fresh instance"})
                    break
            hist.append((0, kind, src, real[0]))
    shapes.add(("sweep",))

    for k in known_for(PROP):
        if k["id"] == "C14-cstmt-no-reset-on-failure":
            c = rc.compiler("READ_STATEMENTS", fresh=True)
            do_call(c, "cstmt", "{ RtV = 1; RdV = foo(RsV); }")
            r = do_call(c, "cstmt", "{ RdV = RsV; }")
            f = fresh_output("cstmt", "{ RdV = RsV; }")
            if r != f:
                res.known(f"{k['id']}: {k['what']} [witness: compile_c_stmt('{{ RtV = 1; RdV = foo(RsV); }}') raises, then compile_c_stmt('{{ RdV = RsV; }}') declares Rt_op] ({k['site']})")
            else:
                res.notes.append(f"known finding {k['id']} no longer reproduces")
        if k["id"] == "C14-preds-written-class-level":
            HX.preds_written.clear()
            c1, c2 = rc.compiler("READ_STATEMENTS", fresh=True), rc.compiler("READ_STATEMENTS", fresh=True)
            do_call(c1, "insn", "{ P0 = RsV; }")
            r = do_call(c2, "insn", "{ PdV = RsV; }")
            HX.preds_written.clear()
            f = fresh_output("insn", "{ PdV = RsV; }")
            if r != f:
                res.known(f"{k['id']}: {k['what']} [witness: instance 1 compiles '{{ P0 = RsV; }}', instance 2 then reports {r[2]} for '{{ PdV = RsV; }}'] ({k['site']})")
            else:
                res.notes.append(f"known finding {k['id']} no longer reproduces")

    def search():
        for v in viol[:3]:
            res.violation(v)
        return len(viol)

    if proof_gate(res, st, search):
        for v in viol[:3]:
            res.violation(v)
    res.coverage.update({
        "evaluations": evals, "distinct_nontrivial": len(shapes),
        "rule": "one evaluation = one random history (0-7 calls over compile_c_stmt / transform_insn / compile_sub_routine, successes and failures, 1-2 Compiler instances) followed by a probe call whose normalised output and attributes are compared with a fresh instance; distinct = distinct (entry point, outcome) sequences",
        "long_lived_instance_steps": sweep_steps, "known_class_occurrences": known, "dirty_but_output_equal": harmless_dirty, "violations_total": len(viol), "samples": samples,
    })
    return res.finish(TB, "cd lean && lake build RzilVerif.Props.C14")
