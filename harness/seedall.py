#!/usr/bin/env python3
"""Run every stored seeded change against the check of its property, in isolation.

Each worker owns a scratch copy of /verif (with its Lean build) and a scratch git worktree of /repo, so neither the
working trees nor the regenerated Gen/*.lean files of the real /verif are touched:
    python3 harness/seedall.py [--only C07-1,C15-2] [--tier quick] [--jobs 4]
Writes /verif/seeded/RESULTS.json (id -> detected, violation lines, first finding) and prints a table.
The scratch directories are removed at the end.
"""
import concurrent.futures
import json, os, re, shutil, subprocess, sys, time

VERIF = os.path.dirname(os.path.dirname(os.path.abspath(__file__)))
SCR = "/tmp/seedrun"
only = None
tier = "quick"
jobs = 1
args = sys.argv[1:]
while args:
    a = args.pop(0)
    if a == "--only":
        only = set(args.pop(0).split(","))
    elif a == "--tier":
        tier = args.pop(0)
    elif a == "--jobs":
        jobs = int(args.pop(0))


def sh(cmd, **kw):
    return subprocess.run(cmd, shell=True, capture_output=True, text=True, **kw)


def setup(w):
    d = f"{SCR}/w{w}"
    shutil.rmtree(d, ignore_errors=True)
    os.makedirs(d)
    r = sh(f"git -C /repo worktree add --detach {d}/repo HEAD")
    assert r.returncode == 0, r.stderr
    sh(f"rsync -a --exclude replays --exclude .git {VERIF}/ {d}/verif/")
    return d


def run_seed(d, sid):
    prop = sid.split("-")[0]
    patch = f"{VERIF}/seeded/{sid}/patch.diff"
    a = sh(f"git -C {d}/repo apply {patch}")
    if a.returncode != 0:
        return sid, {"detected": None, "error": "patch does not apply: " + a.stderr[:200]}
    t0 = time.time()
    shutil.rmtree(f"{d}/verif/replays", ignore_errors=True)
    c = sh(f"cd {d}/verif && timeout 1800 ./check {prop} --tier {tier}", env=dict(os.environ, VERIF_REPO=f"{d}/repo"))
    lines = [l for l in c.stdout.splitlines() if l.startswith("VIOLATION")]
    first = None
    if lines:
        m = re.search(r"replay=(\S+)", lines[0])
        try:
            first = json.load(open(f"{d}/verif/{m.group(1)}")).get("what")
        except Exception:
            pass
    r = {"detected": bool(lines) and c.returncode == 1, "exit": c.returncode, "violation_lines": len(lines),
         "with_failing_input": len([l for l in lines if "no-failing-input-found" not in l]),
         "first_finding": (str(first)[:300] if first else None), "seconds": round(time.time() - t0), "tier": tier}
    if c.returncode not in (0, 1):
        r["stderr_tail"] = c.stderr[-400:]
    sh(f"git -C {d}/repo reset --hard -q && git -C {d}/repo clean -fdq")
    return sid, r


def worker(w, sids):
    d = setup(w)
    out = []
    for sid in sids:
        out.append(run_seed(d, sid))
        print(sid, out[-1][1].get("detected"), out[-1][1].get("violation_lines"), out[-1][1].get("seconds"), "s", flush=True)
    sh(f"git -C /repo worktree remove --force {d}/repo")
    shutil.rmtree(d, ignore_errors=True)
    return out


shutil.rmtree(SCR, ignore_errors=True)
os.makedirs(SCR)
sh("git -C /repo worktree prune")
seeds = sorted(d for d in os.listdir(f"{VERIF}/seeded") if os.path.isdir(f"{VERIF}/seeded/{d}"))
seeds = [s for s in seeds if not only or s in only]
results = {}
if os.path.exists(f"{VERIF}/seeded/RESULTS.json"):
    results = json.load(open(f"{VERIF}/seeded/RESULTS.json"))
chunks = [seeds[i::jobs] for i in range(jobs)]
with concurrent.futures.ThreadPoolExecutor(jobs) as ex:
    for out in ex.map(lambda t: worker(*t), [(i, c) for i, c in enumerate(chunks) if c]):
        for sid, r in out:
            results[sid] = r
json.dump(results, open(f"{VERIF}/seeded/RESULTS.json", "w"), indent=1, sort_keys=True)
shutil.rmtree(SCR, ignore_errors=True)
print("done")
