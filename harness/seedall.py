#!/usr/bin/env python3
"""Run every stored seeded change against the check of its property, in isolation.

A scratch copy of /verif (with its Lean build) and a scratch git worktree of /repo are used, so neither the
working trees nor the regenerated Gen/*.lean files of the real /verif are touched:
    python3 harness/seedall.py [--only C07-1,C15-2] [--tier quick]
Writes /verif/seeded/RESULTS.json (id -> detected, violation lines, first finding) and prints a table.
The scratch directories are removed at the end.
"""
import json, os, re, shutil, subprocess, sys, time

VERIF = os.path.dirname(os.path.dirname(os.path.abspath(__file__)))
SCR = "/tmp/seedrun"
only = None
tier = "quick"
args = sys.argv[1:]
while args:
    a = args.pop(0)
    if a == "--only":
        only = set(args.pop(0).split(","))
    elif a == "--tier":
        tier = args.pop(0)


def sh(cmd, **kw):
    return subprocess.run(cmd, shell=True, capture_output=True, text=True, **kw)


shutil.rmtree(SCR, ignore_errors=True)
os.makedirs(SCR)
sh(f"git -C /repo worktree prune")
r = sh(f"git -C /repo worktree add --detach {SCR}/repo HEAD")
assert r.returncode == 0, r.stderr
sh(f"rsync -a --exclude replays --exclude .git {VERIF}/ {SCR}/verif/")
seeds = sorted(d for d in os.listdir(f"{VERIF}/seeded") if os.path.isdir(f"{VERIF}/seeded/{d}"))
results = {}
if os.path.exists(f"{VERIF}/seeded/RESULTS.json"):
    results = json.load(open(f"{VERIF}/seeded/RESULTS.json"))
env = dict(os.environ, VERIF_REPO=f"{SCR}/repo")
for sid in seeds:
    if only and sid not in only:
        continue
    prop = sid.split("-")[0]
    patch = f"{VERIF}/seeded/{sid}/patch.diff"
    a = sh(f"git -C {SCR}/repo apply {patch}")
    if a.returncode != 0:
        results[sid] = {"detected": None, "error": "patch does not apply: " + a.stderr[:200]}
        continue
    t0 = time.time()
    shutil.rmtree(f"{SCR}/verif/replays", ignore_errors=True)
    c = sh(f"cd {SCR}/verif && timeout 1800 ./check {prop} --tier {tier}", env=env)
    lines = [l for l in c.stdout.splitlines() if l.startswith("VIOLATION")]
    first = None
    if lines:
        m = re.search(r"replay=(\S+)", lines[0])
        try:
            first = json.load(open(f"{SCR}/verif/{m.group(1)}")).get("what")
        except Exception:
            pass
    results[sid] = {"detected": bool(lines) and c.returncode == 1, "exit": c.returncode, "violation_lines": len(lines),
                    "with_failing_input": len([l for l in lines if "no-failing-input-found" not in l]),
                    "first_finding": (str(first)[:300] if first else None), "seconds": round(time.time() - t0), "tier": tier}
    if c.returncode not in (0, 1):
        results[sid]["stderr_tail"] = c.stderr[-400:]
    sh(f"git -C {SCR}/repo reset --hard -q && git -C {SCR}/repo clean -fdq")
    print(sid, results[sid]["detected"], results[sid]["violation_lines"], results[sid]["seconds"], "s", flush=True)
    json.dump(results, open(f"{VERIF}/seeded/RESULTS.json", "w"), indent=1, sort_keys=True)
# clean tree control in the same scratch set-up
sh(f"git -C /repo worktree remove --force {SCR}/repo")
shutil.rmtree(SCR, ignore_errors=True)
print("done")
