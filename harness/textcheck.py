"""Shared by C10/C11/C12/C16 (and C01): run the Lean per-output checkers on the real emitted text of
corpus parts, sub-routines and generated programs, in both layouts."""
from __future__ import annotations

import time

from common import *  # noqa
import realcode as rc

FORMATS = ["READ_STATEMENTS", "EXEC_CLASSES"]


def parse_report(line: str) -> dict:
    r = parse_sx(line)
    if not isinstance(r, list) or r[0] != "report":
        return {"error": line}
    d = {}
    for item in r[1:]:
        k = item[0]
        vals = [v.s if isinstance(v, Q) else v for v in item[1:]]
        if k in ("parsed", "hi", "pkt"):
            d[k] = vals[0] == "1"
        elif k == "denote":
            d[k] = vals[0]
        elif k == "operands":
            d[k] = [[x.s if isinstance(x, Q) else x for x in v] for v in item[1:]]
        else:
            d[k] = vals
    return d


class TextSession:
    """Accumulates requests for one driver process (def-subs first), runs them in one batch."""

    def __init__(self):
        self.reqs: list[str] = []
        self.tags: list = []

    def def_sub(self, name, ret, params, text, tag=None):
        self.reqs.append(sx(["def-sub", name, ret, [[p, s] for p, s in params], Q(text)]))
        self.tags.append(tag)

    def text(self, text, tag=None):
        self.reqs.append(sx(["text", Q(text)]))
        self.tags.append(tag)

    def run(self):
        replies = Driver().run(self.reqs)
        return [(t, parse_report(r)) for t, r in zip(self.tags, replies)]


def corpus_run(tier: str, formats=FORMATS, names=None):
    """Compile (a sample of / all of) the bundled corpus with real compilers of the given formats and
    analyse every emitted text with Lean. Returns (records, stats)."""
    t0 = time.time()
    beh = rc.load_behaviours()
    if names is None:
        names = sorted(beh) if tier == "thorough" else rc.sample_names(beh, seed())
    sub = {n: beh[n] for n in names}
    parsed = rc.parse_cached(sub)
    t_parse = time.time() - t0
    records = []
    sess = TextSession()
    c0 = rc.compiler(formats[0])
    # sub-routines are always emitted in the default layout by the code; analyse them once per run
    for name, ret, params, text in rc.sub_routine_defs(c0):
        sess.def_sub(name, ret, params, text, tag=("sub", name, formats[0]))
    per_fmt = {fmt: {} for fmt in formats}
    # formats interleaved per instruction: both compilers see the same compilation history
    for name in names:
        for fmt in formats:
            res = rc.transform_all(rc.compiler(fmt), {name: parsed[name]})
            per_fmt[fmt][name] = res[name]
            r = res[name]
            if r["status"] != "ok":
                continue
            for i, text in enumerate(r["rzil"]):
                sess.text(text, tag=("part", name, i, fmt))
    out = sess.run()
    for tag, rep in out:
        records.append({"tag": tag, "report": rep})
    stats = {
        "instructions": len(names),
        "accepted": sum(1 for n in names if per_fmt[formats[0]][n]["status"] == "ok"),
        "parse_rejected": sum(1 for n in names if per_fmt[formats[0]][n]["status"] == "parse-reject"),
        "transform_rejected": sum(1 for n in names if per_fmt[formats[0]][n]["status"] == "transform-reject"),
        "parts_analysed": sum(1 for t, _ in out if t[0] == "part"),
        "sub_routines": sum(1 for t, _ in out if t[0] == "sub"),
        "parse_s": round(t_parse, 1),
    }
    return records, per_fmt, stats


def gen_run(n_clean: int, n_wild: int, forbidden: set, cfg=None, formats=FORMATS, rng_salt=0, extra_programs=()):
    """Generate dialect programs (a clean stream avoiding the carve-out classes in `forbidden`, and a wild
    stream with everything), compile them with real compilers of the given formats, analyse the emitted
    text with Lean. Returns (outcomes, stats)."""
    import random
    import gen

    g = gen.Gen(random.Random(seed() * 1000003 + rng_salt), cfg)
    # directed programs: a source text, or (source text, carve-out classes) when the text triggers a listed finding
    items = [{"stream": "extra", "ast": None, "src": s if isinstance(s, str) else s[0], "features": set() if isinstance(s, str) else set(s[1])} for s in extra_programs]
    for _ in range(n_clean):
        a = g.clean_program(forbidden)
        items.append({"stream": "clean", "ast": a, "src": gen.prog_src(a), "features": gen.features(a)})
    for _ in range(n_wild):
        a = g.program()
        items.append({"stream": "wild", "ast": a, "src": gen.prog_src(a), "features": gen.features(a)})
    parsed = rc.parse_programs([it["src"] for it in items])
    sess = TextSession()
    c0 = rc.compiler(formats[0])
    for name, ret, params, text in rc.sub_routine_defs(c0):
        sess.def_sub(name, ret, params, text, tag=("sub", name))
    for i, (it, pr) in enumerate(zip(items, parsed)):
        if pr[0] != "ok":
            it.update(status="parse-reject", exc=pr[1])
            continue
        it.update(status="ok", text={}, meta={}, tree=pr[1])
        for fmt in formats:
            r = rc.transform_tree(rc.compiler(fmt), pr[1])
            if r[0] != "ok":
                it.update(status="transform-reject", exc=r[1], msg=r[2])
                break
            it["text"][fmt] = r[1]
            it["meta"][fmt] = r[2]
        if it["status"] == "ok":
            for fmt in formats:
                sess.text(it["text"][fmt], tag=("gen", i, fmt))
    reps = sess.run()
    for tag, rep in reps:
        if tag and tag[0] == "gen":
            items[tag[1]].setdefault("report", {})[tag[2]] = rep
    import collections
    feat = collections.Counter()
    for it in items:
        for f in it["features"]:
            feat[f] += 1
    stats = {
        "generated": len(items),
        "clean": n_clean, "wild": n_wild,
        "accepted": sum(1 for o in items if o["status"] == "ok"),
        "parse_rejected": sum(1 for o in items if o["status"] == "parse-reject"),
        "transform_rejected": sum(1 for o in items if o["status"] == "transform-reject"),
        "distinct_sources": len({o["src"] for o in items}),
        "constructs": dict(g.stats.most_common()),
        "carve_out_classes_hit": dict(feat.most_common()),
    }
    return items, stats
