#!/usr/bin/env python3
"""Regenerates MANIFEST.json from the table below (kept in one place so it stays valid)."""
import json, os
HERE = os.path.dirname(os.path.dirname(os.path.abspath(__file__)))
TB = ("Trusted: Lean 4.33 kernel + axioms propext/Classical.choice/Quot.sound (audited per theorem each run; no sorry, "
      "native_decide, bv_decide or own axioms); the Lean compiler for running the model in the driver; the Python harness; ")
CHECKS = {
 "C04": dict(
   text="Proof: c11Cast = C11 common type (sign and width of both results), symmetry, the three named corner rules, promotion spec/idempotence, for ALL widths (Nat) in Lean. Tie: exhaustive correspondence of the Lean functions with the real c11_cast/promoted_type/__eq__ over all 9216 ordered pairs of producible types (+20k seeded random pairs; thorough: all 4096^2 (sign,width) pairs for widths 1..2048), observing results, argument objects after the call and determinism.",
   note=TB + "the hand-written model Model/Types.lean is tied by exhaustive differential execution, not by translation. EXTERNAL/VOID/float types are outside the property.",
   technique="Lean 4 theorems over a hand-written model + exhaustive correspondence with the real functions",
   ref="DESIGN.md section 4, C04"),
}
CHECKS.update({
 "C10": dict(
   text="Proof: type soundness of the RzIL sort checker (sortOf_sound: progress+preservation for every pure incl. macros; wfEffect_sound: a checker-accepted effect never hits a sort error, for every fuel, all BRANCH arms and loop iterations, incl. sub-routine calls) in Lean. The verified checker is run by Lean on the RAW emitted text of every accepted corpus part and sub-routine in both layouts (thorough: all 2181 definitions; quick: stratified sample) and of generated programs (clean stream must be perfect; wild stream failures must match a listed known finding by triggering construct and signature).",
   note=TB + "Lean tokenizer/parser of emitted C (Model/CText.lean) and Term->IL reading; sort rules as enumerated in the property; operand widths by operand-variable name; macro sorts regenerated from qemu_rzil_macros.json. The lowering itself is not modelled here: the property is decided per output.",
   technique="Lean 4 soundness theorem for a sort checker + the checker run in Lean on real compiler output",
   ref="DESIGN.md section 4, C10"),
 "C11": dict(
   text="Proof: the Lean parser of the emitted C text is a left inverse of a token-level printer for terms, argument lists and items (parseTerm_toToks, parseItems_toToks, all terms, unbounded depth), getter-name and add_op-name injectivity facts. Per output: Lean parses the RAW text of every accepted behaviour/sub-routine (both layouts) and checks declarations-with-initialiser + final return, declared once and before use, known callees, balanced parentheses, valid names; companion record (needs_hi/needs_pkt vs Lean's token-level mention test, getter names unique) checked on the corpus.",
   note=TB + "the character-level tokenizer is trusted (exercised on the whole corpus); 'valid C' means the declaration-list subset (no C compiler/rz-hexagon headers available).",
   technique="Lean 4 parser/printer inverse theorem + Lean well-formedness checker on real output",
   ref="DESIGN.md section 4, C11"),
 "C12": dict(
   text="Proof: read-counter protocol (for ANY number of reads exactly one raw use, the rest DUP) and checker examples in Lean. Per output: Lean's `linearProblems` on the RAW text of every accepted behaviour/sub-routine in both layouts: every RzILOpPure* variable one consuming use + DUPs, every RzILOpEffect* exactly one use, borrowed parameters at most one raw use, nothing unused. Partial: the tie of the protocol lemmas to the Python classes is through the per-output check, not a model of il_read.",
   note=TB + "ownership reading of the emitted C: a variable holds one node, a raw use moves it, DUP clones.",
   technique="Lean 4 protocol lemmas + Lean linearity checker on real output",
   ref="DESIGN.md section 4, C12"),
 "C16": dict(
   text="Proof: equal denoted terms give identical execution from EVERY state, fuel, macro interpretation and sub-routine environment (denote_eq_exec), environment composition lemmas. Per behaviour: Lean computes `denoteIL` (declarations inlined, DUP erased, h_tmpN renamed) of the READ_STATEMENTS and EXEC_CLASSES texts produced by two real compilers from the same tree and compares terms and attribute lists (corpus: all parts in thorough; generated programs).",
   note=TB + "READ_REG is read as a pure term with run-time meaning (DESIGN 3.2); declaration order is deliberately forgotten by denote.",
   technique="Lean 4 theorem (equal denotation => equal behaviour) + Lean denotation of both real outputs",
   ref="DESIGN.md section 4, C16"),
 "C18": dict(
   text="Proof: for EVERY completion order (permutation of task indices = every pool size/schedule) the imap-collected pool result equals the sequential fold (pool_eq_seq_imap), completion order is irrelevant for distinct names (pool_eq_seq_unordered), one entry per name, all parts kept on success, first failure empties the trees and records the error name, entry i depends only on task i (failure_isolated). Tie: the real Parser.parse run on random corpus subsets with injected broken behaviours under pool sizes 1..16 and seeded per-task delays, compared with the Lean model instantiated with the sequential in-process outcome table. Partial: real OS interleavings are sampled; worker crashes are not modelled.",
   note=TB + "model Model/Pool.lean (pool = arbitrary completion order + imap collector; dict.update on insertion-ordered dicts); delay/pool-size injection by monkeypatching in the harness process.",
   technique="Lean 4 theorems over all schedules of a pool model + correspondence with the real Parser.parse",
   ref="DESIGN.md section 4, C18"),
})
CHECKS.update({
 "C19": dict(
   text="Proof: splitResolved recovers exactly NAME and BODY for ALL word names and newline-free bodies whatever parentheses/commas/braces they contain (splitResolved_lossless, with the exact side condition for text before `insn(` and its counterexample), exact characterisation of rejected lines, splitCompounds losslessness for an empty prefix and a proof that any prefix IS lost (the full-strength statement is refuted: listed known finding), load fails as a whole on any malformed line. Tie: the Lean functions vs the real static methods / loader on all 2181 bundled lines and 72 compounds (exhaustive) and on generated lines (5k quick / 200k thorough) incl. two-step loader histories; the property's own predicate (reconstruction, brace balance, text preserved) is evaluated on the real results.",
   note=TB + "model Model/PPStrings.lean computes what Python's re computes for the two patterns (hand-written, tied by differential execution).",
   technique="Lean 4 theorems over a List Char model of the two regexes + exhaustive/generated correspondence with Python re",
   ref="DESIGN.md section 4, C19"),
 "C20": dict(
   text="Proof: the four patch clauses for ALL macro lists and patch dicts (patch_replaces_all, patch_once_first_position, patch_user_only_added, patch_preserves_others), continuation joining loses nothing but the backslashes and is idempotent, do{}while(0) stripping reaches a fixpoint with no remaining match and strips simple wrappers (the look-alike clause is refuted: listed known finding). Tie: Lean functions vs the real helpers on the bundled files (all 2182 intermediate lines) and generated macro/patch sets and bodies; the real pipeline is regenerated in a scratch copy and must reproduce the bundled resolved file, preserve names one-to-one, and leave no invocation of a defined function-like macro. Partial: no theorem that pcpp is ISO C preprocessing (observed on the bundled corpus only); no reference macro expander was built.",
   note=TB + "model Model/PPMacros.lean mirrors patch_macros, the continuation loop and replace_do_while_0; pcpp is third-party code under test, observed by behaviour.",
   technique="Lean 4 theorems over models of the preprocessor helpers + correspondence + regeneration of the bundled file",
   ref="DESIGN.md section 4, C20"),
})
CHECKS.update({
 "C13": dict(
   text="Proof: the REGENERATED callback/token/flag/get_meta tables have exactly the expected content (decide; they break when the Python changes), the six boolean attributes are history-free for every reachable state, metaAfter prior tree = render(attrsOfTree tree) for ALL trees whenever no earlier part wrote an explicit predicate (meta_of_tree_partial); the full statement is refuted (known finding: class-level preds_written) and proved for the repaired reset. Tie: translator (Python ast -> Gen/CallbacksGen.lean) + correspondence: real get_meta() under random compilation histories (compile_c_stmt bodies, transform_insn on corpus parts and generated programs, failing compilations interleaved, two instances) vs the Lean model on the exported Lark tree and vs the specification.",
   note=TB + "specification attrsOfTree (attributes implied by the Lark tree); the translator's reading of the Python AST.",
   technique="Lean 4 theorems over tables regenerated from the source + correspondence under histories",
   ref="DESIGN.md section 4, C13"),
 "C14": dict(
   text="Proof: regenerated facts about reset()/ILOpsHolder.clear()/entry points (state_fields_covered: every mutable field is reset, configuration, the renaming-equivariant counter or the listed leak), reset leaves a clean state, every behaviour compiled through transform_insn starts from a clean state for ALL histories (insn_history_free), partial history-freedom for compile_c_stmt, the refuted full statement with kernel-checked witnesses (known findings), full history-freedom of the repaired machine. Tie: translator + correspondence: random and directed histories over the three entry points on 1-2 Compiler instances with failing inputs interleaved; the probe call's normalised output and attributes are compared with those of a fresh Compiler in a pristine forked process (the property itself) and with the Session model's prediction.",
   note=TB + "Session model abstracts the per-behaviour lowering; state inside lark is not modelled; normalisation = comment lines dropped, h_tmpN renamed.",
   technique="Lean 4 state-machine theorems over regenerated reset tables + history correspondence against pristine processes",
   ref="DESIGN.md section 4, C14"),
})
CHECKS.update({
 "C17": dict(
   text="Proof: refParse_print — the reference precedence parser (recursive descent on the left-factored tower, all 10 binary levels, ?:, assignment, unary, casts, postfix, calls) inverts the minimal-parenthesis printer for ALL expression trees (unbounded depth), printer injectivity, precedence/associativity lemmas (a-b-c, a=b=c, ?: right-assoc, -a*b, (T)a+b, a&b&&c, !a==b); kernel-decided shape facts about the REGENERATED grammar (tower levels in C's order, left recursion, operator spellings agreeing with the reference parser's table, terminal priorities, the two if-alternatives). Tie: translator (Lark's own loader -> Gen/GrammarGen.lean) + correspondence with Lark: all 256 ordered binary-operator pairs (exhaustive) and random token strings (random parentheses and spacing, every operand token class) parsed by the real parser and the Lean reference parser; token classification; statement nests; texts re-parsed in fresh processes per PYTHONHASHSEED through both parser construction sites. Partial: Earley ambiguity resolution across hash seeds is third-party runtime behaviour (sampled).",
   note=TB + "reference parser/printer Model/Grammar.lean stands for 'the structure C prescribes'; lark is observed by behaviour.",
   technique="Lean 4 parser/printer round-trip theorem + decide over the regenerated grammar + correspondence with Lark",
   ref="DESIGN.md section 4, C17"),
})
SEM = "Tie: for every program of this run the denoted tree of the REAL output equals the tree of the Lean lowering model (Cfg.asCode); search: Lean executes the C program and the real effect on boundary + pseudo-random states. Programs whose failure falls into a listed carve-out class (the construct is present) are KNOWN-FINDINGs, anything else a violation. "
CHECKS.update({
 "C02": dict(
   text="Proof: expr_correct_fixed — for EVERY expression of the modelled dialect (unbounded depth; arithmetic, bitwise, shifts, six comparisons, && || !, ?:, casts, unary, literals, registers, immediates, locals, loads, QEMU macros), every state and macro interpretation, the IL emitted by the repaired lowering (Cfg.fixed) evaluates to the value the C11 semantics gives, with the C result type, under the explicit decidable well-formedness guard WFE; result-type corollaries (shift_result_type, cmp_result_01, cmp_signed_iff_common_signed); expr_asCode_eq_fixed — on the decidable carve-out CarveE the lowering AS THE CODE DOES IT (Cfg.asCode) emits the same IL as the repaired one, hence expr_correct_asCode_carved; outside the carve-out nine kernel-checked witnesses (…_carved / …_differs) show the two differ — these are the listed known findings; two findings about the C side guard (shift by a bool, huge literal). " + SEM + "Programs: exhaustive operator x left type x right type at depth 1 (binary, shifts, six comparisons as condition and as value, && ||, ?:, unary) + generated clean/wild expressions.",
   note=TB + "C side Model/CSem.lean and IL side Model/ILSem.lean are the specification (DESIGN 3.1/3.2, modelled not verified); lowering model Model/Compile.lean (hand-written mirror with defect switches) tied by tree comparison with the real output on every run; states sampled inside Lean only for the failing-input search.", technique="Lean 4 lowering model + theorems; tie by tree equality with real output; Lean-executed C-vs-IL search", ref="DESIGN.md section 4, C02"),
 "C03": dict(
   text="Proof: initACast_fixed_correct — for ALL source/target types and values the repaired conversion yields convC (narrowing keeps low bits, widening sign-extends iff the SOURCE is signed, bool sources give 0/1), kind-irrelevance, conversion chains (conv_chain, conv_chain_promote); initACast_asCode_eq_fixed on the decidable predicate CastSafe and initACast_asCode_sem_eq_fixed_narrow; kernel-checked witness t3_int8_to_uint64_* that the code's cast of a signed source into a wider unsigned target zero-extends (listed known finding); the per-context statement (initialiser, assignment, store, jump, macro argument) follows from stmt_correct_fixed of C05. " + SEM + "Programs: all 8x8 type pairs in initialisation, assignment, chained assignment, explicit cast, register write, memory store, jump target, macro argument, chains of casts, boolean sources.",
   note=TB + "C side Model/CSem.lean and IL side Model/ILSem.lean are the specification (DESIGN 3.1/3.2, modelled not verified); lowering model Model/Compile.lean (hand-written mirror with defect switches) tied by tree comparison with the real output on every run; states sampled inside Lean only for the failing-input search.", technique="Lean 4 lowering model + theorems; tie by tree equality with real output; Lean-executed C-vs-IL search", ref="DESIGN.md section 4, C03"),
 "C05": dict(
   text="Proof: stmt_correct_fixed / prog_correct_fixed_closed — for EVERY statement list of the modelled dialect (declarations, simple/compound/chained assignment to locals and registers, memory stores, if/else, for loops with ++ and += steps, jumps, nesting unbounded), every fuel (trip count) and initial state, executing the effect emitted by the repaired lowering from a related state ends in a related state whenever the C execution is defined (simulation by induction on fuel, invariant Inv: registers, .new bank, memory, store log, locals, immediates); prog_asCode_eq_fixed_closed — on the decidable carve-out CarveS the lowering as the code does it emits the same effect, hence prog_correct_asCode_closed; structural lemmas (if_exactly_one_arm, for_order, for_iteration, assign_updates_only_target); kernel-checked witnesses t3_compound_narrow_differs and chain_counterexample (`a = b += a`: listed known finding), stmt_correct_fixed_unrestricted_false (the unguarded statement is refuted). " + SEM + "Programs: generated statement sequences (nesting <= 3, if/else, for with ++ and += steps and compound conditions, all assignment operators, chained assignments, register/local/memory writes, jumps).",
   note=TB + "C side Model/CSem.lean and IL side Model/ILSem.lean are the specification (DESIGN 3.1/3.2, modelled not verified); lowering model Model/Compile.lean (hand-written mirror with defect switches) tied by tree comparison with the real output on every run; states sampled inside Lean only for the failing-input search.", technique="Lean 4 lowering model + theorems; tie by tree equality with real output; Lean-executed C-vs-IL search", ref="DESIGN.md section 4, C05"),
 "C09": dict(
   text="Proof: fold_sound_fixed / fold_sound_fixed_bool — whenever the repaired lowering folds an expression to a literal r, the C value of the expression is r in the C type, for every expression shape (unary, + - *, comparisons, constant ?: conditions); fold_asCode_eq_fixed on the decidable predicate FoldSafe (the code's Python-int folding agrees), fold_asCode_eq_fixed_lit (suffix-only literal typing agrees with C11 6.4.4.1 exactly when litTypeCode = litTypeC); kernel-checked witnesses lit_big_*, negU_*, cmpMixed_*, ternConst_* of the differences (listed known findings). " + SEM + "Programs: literal spellings (decimal/hex x suffixes x values around 2^7..2^64) under foldable operators, folded comparisons, constant ?: conditions with register arms, the unfolded (through a local) variants.",
   note=TB + "C side Model/CSem.lean and IL side Model/ILSem.lean are the specification (DESIGN 3.1/3.2, modelled not verified); lowering model Model/Compile.lean (hand-written mirror with defect switches) tied by tree comparison with the real output on every run; states sampled inside Lean only for the failing-input search.", technique="Lean 4 lowering model + theorems; tie by tree equality with real output; Lean-executed C-vs-IL search", ref="DESIGN.md section 4, C09"),
})
CHECKS.update({
 "C06": dict(
   text="Proof (partial): facts about the hybrid machinery of the lowering model (popPending never invents entries, rendering order of set-value vs execute for postfix and calls); the ordering/exactly-once theorems over all placements are in progress and not claimed until they build. " + "Tie: for every program of this run the denoted tree of the REAL output equals the tree of the Lean hybrid lowering model (Model/CompileH.lean, code configuration); search: Lean executes the effectful C semantics (Model/CSemH.lean) and the real effect on boundary + pseudo-random states. Failures in a listed carve-out class are KNOWN-FINDINGs, anything else a violation. " + "Programs: directed families (each hybrid kind in initialiser, assignment, condition, loop step, call argument, ?: arm, unused expression statement; 0..4 hybrids per program) + generated programs with hybrids.",
   note=TB + "C side Model/CSemH.lean (effectful expressions, sequence points as in C11 for the generated programs; programs with unsequenced interference are not judged) and IL side Model/ILSem.lean are the specification; lowering model Model/CompileH.lean tied by tree comparison with the real output on every run.", technique="Lean 4 lowering model with pending-hybrid state + lemmas; tie by tree equality with real output; Lean-executed C-vs-IL search", ref="DESIGN.md section 4, C06"),
 "C08": dict(
   text="Proof: argument conversion (args_length; args_converted: under the repaired configuration the compiled arguments evaluate to exactly the values converted to the parameter types that the C call computes), the call's pending entry (call_entry: execute hex_<name>, then SETL tmp := SIGNED/UNSIGNED ret.width (VARL ret_val), chosen by the declared signedness), return conversion on both sides (return_value_IL, return_value_C, return_value_agree, return_roundtrip, return_stmt_IL, return_then_read), the frame theorem for ALL effects/fuels/states (frame: execution changes locals, registers, memory only inside the syntactic footprint computed through the sub-routine environment; params restored), call_preserves_disjoint_locals and C_call_isolates, nested calls (nested_call: the inner call's sequence is pulled in front of the outer call, any earlier arguments), protection of a call's value once copied (call_value_protected, later_call_tmp_ne), end-to-end simulation of a call under hypotheses on the callee body (call_correct_builtin, call_correct_sub with full instances clz32_call_correct, id32_call_correct). The isolation clause is refuted on the model of the code AND on the repaired configuration (flat IL namespace): kernel-checked witness `clz32(a) + clz32(b)` gives 61 instead of 46 because the callee's own h_tmp0 overwrites the caller's live temporary (witness_IL, witness_C, witness_not_disjoint, witness_ret_val_clobbered) — listed known finding. " + "Tie: for every program of this run the denoted tree of the REAL output equals the tree of the Lean hybrid lowering model (Model/CompileH.lean, code configuration); search: Lean executes the effectful C semantics (Model/CSemH.lean) and the real effect on boundary + pseudo-random states. Failures in a listed carve-out class are KNOWN-FINDINGs, anything else a violation. " + "Programs: calls of every bundled sub-routine with all argument type combinations, nested calls, 1..4 calls per expression, calls in dead ?: arms; the REAL compiled bodies of the sub-routines are executed by Lean for the callee; per-output sort/well-formedness/linearity problems of every compiled sub-routine body count as violations; long-lived compiler instances (temporary numbering continues).",
   note=TB + "callee semantics: the real compiled body executed in the caller's flat IL namespace (as RzIL does); C side of bundled sub-routines: Model/CSemH.lean builtinSub (hand-written from sub_routines.json, conv_round by its C text).", technique="Lean 4 lowering model + lemmas; tie by tree equality with real output; Lean-executed C-vs-IL search incl. real callee bodies", ref="DESIGN.md section 4, C08"),
})
CHECKS.update({
 "C07": dict(
   text="Proof: kernel-decided facts about the architectural binding table bindingSpec over the FULL finite spelling spaces enumerated from the REGENERATED grammar terminals (272 letter spellings = 8 classes x 17 access spellings x V/N, 8 immediates, 320 explicit singles): new_flag_iff_new_spelling, kind_new_iff_new_spelling, width_by_class (R/C/M/N 32, P 8, pairs double, signed), imm_signed_iff_rRsS, slot_letter_is_access_letter, explicit_number_and_class, opvar_injective, opvar_matches_semantic_model; for ALL alias names alias_binding, pc_binding; read_touches_named_cell (the semantic model reads the state cell keyed by the table's operand variable, .new bank for .new/destination-only). Tie: exhaustive correspondence over the spelling space enumerated from the grammar Lark loaded (must coincide with Lean's enumeration): for every spelling naming an architectural resource the real compiler compiles a read probe, a write probe and two-operand probes (same letter V/N, single/pair, other class, X/X_NEW; both orders); Lean parses the RAW text and compares the slot declaration (function, letter / number+class / alias enum, .new flag) and the denoted tree (type made visible by a cast to the specified type) with the table; loads/stores/jumps/PC through the lowering model (tree equality) and Lean-executed C-vs-IL search; the program generator's operand tables are checked against the table.",
   note=TB + "bindingSpec is a hand-written specification (modelled, not verified against the Hexagon PRM); the plugin contract (ISA2REG/EXPLICIT2OP/ALIAS2OP/NREG2OP/ISA2IMM resolve what they are asked) is assumed; explicit pairs are sampled in quick (all architectural pairs + 300 random of 6400), all in thorough.",
   technique="Lean 4 decide over a finite specification table enumerated from the regenerated grammar + exhaustive probe correspondence with the real compiler",
   ref="DESIGN.md section 4, C07"),
})
CHECKS.update({
 "C15": dict(
   text="Proof: on the lowering model every statement yields exactly one effect in source order, expression statements carry their temporaries instead (compileStmts_length, compileStmtsH_count, for ALL statement lists), and the final sequence drops nothing but EMPTY() members (mkSeq_keeps); the list of grammar productions that reach the transformer WITHOUT a callback (raw Tree objects, which no Sequence keeps) is computed from the REGENERATED grammar and callback tables and frozen by kernel decide (no_callback_rules, statement_rules_have_callbacks) — a new production without callback or a removed callback breaks it. The full statement (nothing dropped) is refuted on the unchanged tree: break/continue/goto, labelled statements and comma statements vanish (listed known findings, by construct). Tie/search: every construct the property enumerates (+ chained assignments, hybrids, controls) placed at 6 statement and 6 expression positions around supported code, both layouts, compiled by the real compiler: a must-raise construct that compiles is a violation; a construct that compiles must have every write it performs in the tree Lean denotes from the RAW text (reachable from instruction_sequence) and no unreachable effect declaration.",
   note=TB + "the supported dialect's complete representation is carried by the tree-equality ties of C05/C06 (real output = lowering model), not re-checked here; constructs beyond the property's enumeration are covered only through the frozen no-callback table.",
   technique="Lean 4 lemmas on the lowering model + decide over regenerated grammar x callback tables + construct-placement correspondence with the real compiler, outputs denoted by Lean",
   ref="DESIGN.md section 4, C15"),
})
NOT_YET = {}
ALL = [f"C{i:02d}" for i in range(1, 21)]
def main():
    checks = []
    for pid, c in CHECKS.items():
        checks.append({
            "property_id": pid,
            "quick_cmd": f"./check {pid} --tier quick",
            "thorough_cmd": f"./check {pid} --tier thorough",
            "evidence_file": f"evidence/{pid}.json",
            "replay_cmd_template": f"./check {pid} --replay {{path}}",
            "engine": "lean4-model+correspondence",
            "level_claimed": {"category": "proof", "text": c["text"], "design_ref": c["ref"]},
            "level_note": c["note"],
            "technique": c["technique"],
        })
    na = [{"property_id": p, "reason": NOT_YET.get(p, "check not built yet in this round (planned, see DESIGN.md section 7); not claimed until its theorems and tie exist")}
          for p in ALL if p not in CHECKS]
    m = {
        "version": 1,
        "setup_cmd": "./setup.sh",
        "hooks": {
            "guard": "RZIL_COMPILER_VERIF",
            "enable": "no hooks in /repo: the harness drives the real code in-process (monkeypatching in the harness process only)",
            "baseline_off_cmd": "cd /repo && /venv/bin/python -m pytest -ra -q -p no:cacheprovider --timeout=900 --continue-on-collection-errors",
            "source_commits": [],
            "add_only": True,
        },
        "engines": [{"name": "lean4-model+correspondence", "path": "lean/ + harness/", "serves_properties": sorted(CHECKS), "kind_free_text": "Lean 4 theorems about an executable model; model tied to /repo by translators (Gen/*.lean) and a line-protocol correspondence check"}],
        "checks": checks,
        "not_applicable": na,
        "notes": "All checks: ./check Cxx --tier quick|thorough. Exit 0 ok, 1 violation, 2 infrastructure failure/timeout.",
    }
    json.dump(m, open(os.path.join(HERE, "MANIFEST.json"), "w"), indent=1)
if __name__ == "__main__":
    main()
