#!/usr/bin/env python3
"""Regenerates MANIFEST.json from the table below (kept in one place so it stays valid)."""
import json, os
HERE = os.path.dirname(os.path.dirname(os.path.abspath(__file__)))
TB = ("Trusted: Lean 4.33 kernel + axioms propext/Classical.choice/Quot.sound (audited per theorem each run; no sorry, "
      "native_decide, bv_decide or own axioms); the Lean compiler for running the model in the driver; the Python harness; ")
CHECKS = {
 "C04": dict(
   text="Proof: c11Cast = C11 common type (sign and width of both results), symmetry, the three named corner rules, promotion spec/idempotence, for ALL widths (Nat) in Lean. Tie: exhaustive correspondence of the Lean functions with the real c11_cast/promoted_type/__eq__ over all 9216 ordered pairs of producible types (+20k seeded random pairs; thorough: all 4096^2 (sign,width) pairs for widths 1..2048), observing results, argument objects after the call and determinism.",
   note=TB + "the hand-written model Model/Types.lean is tied by exhaustive differential execution, not by translation. EXTERNAL/VOID/float types are outside the property.",
   technique="Lean 4 theorems over a hand-written model + exhaustive correspondence with the real functions",
   ref="DESIGN.md section 4, C04"),
}
NOT_YET = {}
ALL = [f"C{i:02d}" for i in range(1, 21)]
def main():
    checks = []
    for pid, c in CHECKS.items():
        checks.append({
            "property_id": pid,
            "quick_cmd": f"./check {pid} --tier quick",
            "thorough_cmd": f"./check {pid} --tier thorough",
            "evidence_file": f"evidence/{pid}.json",
            "replay_cmd_template": f"./check {pid} --replay {{path}}",
            "engine": "lean4-model+correspondence",
            "level_claimed": {"category": "proof", "text": c["text"], "design_ref": c["ref"]},
            "level_note": c["note"],
            "technique": c["technique"],
        })
    na = [{"property_id": p, "reason": NOT_YET.get(p, "check not built yet in this round (planned, see DESIGN.md section 7); not claimed until its theorems and tie exist")}
          for p in ALL if p not in CHECKS]
    m = {
        "version": 1,
        "setup_cmd": "cd lean && lake build",
        "hooks": {
            "guard": "RZIL_COMPILER_VERIF",
            "enable": "no hooks in /repo: the harness drives the real code in-process (monkeypatching in the harness process only)",
            "baseline_off_cmd": "cd /repo && /venv/bin/python -m pytest -ra -q -p no:cacheprovider --timeout=900 --continue-on-collection-errors",
            "source_commits": [],
            "add_only": True,
        },
        "engines": [{"name": "lean4-model+correspondence", "path": "lean/ + harness/", "serves_properties": sorted(CHECKS), "kind_free_text": "Lean 4 theorems about an executable model; model tied to /repo by translators (Gen/*.lean) and a line-protocol correspondence check"}],
        "checks": checks,
        "not_applicable": na,
        "notes": "All checks: ./check Cxx --tier quick|thorough. Exit 0 ok, 1 violation, 2 infrastructure failure/timeout.",
    }
    json.dump(m, open(os.path.join(HERE, "MANIFEST.json"), "w"), indent=1)
if __name__ == "__main__":
    main()
