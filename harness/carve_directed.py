"""(development tool, not part of ./check; run: /venv/bin/python harness/carve_directed.py)
   directed soundness test of the widened carve-out: conditions ! && || and constant ?: over all type pairs.
   every program goes through the REAL compiler; the driver compares model tree / real tree, evaluates the certificate and
   executes C vs the real effect on sampled states.  A certified program with a failing state = the carve-out is wrong."""
import sys, os, json, collections
sys.path.insert(0, os.path.dirname(os.path.abspath(__file__)))
import common
from common import *
import realcode as rc, semcheck, semprops, gen
from semprops import T, TN, var, reg, decl, wr, lit
use_repo()
L = lit
progs = []
def pre2(t1, t2):
    return [decl(t1, "a", ("cast", t1, T[t1], reg("RssV"))), decl(t2, "b", ("cast", t2, T[t2], reg("RttV")))]
for t1 in TN:
    a = var("a", t1)
    p1 = [decl(t1, "a", ("cast", t1, T[t1], reg("RssV")))]
    progs.append(p1 + [("if", ("not", a), [wr("RdV", L("1"))], [wr("RdV", L("2"))])])
    progs.append(p1 + [("if", ("not", ("not", a)), [wr("RdV", L("1"))], [wr("RdV", L("2"))])])
    progs.append(p1 + [("if", ("not", ("bin", "&", a, L("1"))), [wr("RdV", L("1"))], [wr("RdV", L("2"))])])
    for t2 in TN:
        b = var("b", t2)
        p = pre2(t1, t2)
        for c in (("log", "&&", a, b), ("log", "||", a, b), ("log", "&&", ("not", a), ("not", b)), ("log", "||", ("not", a), b),
                  ("not", ("cmp", "<", a, b)), ("log", "&&", ("cmp", "<", a, b), ("cmp", "!=", a, L("0"))),
                  ("log", "||", ("cmp", "==", a, b), ("not", b)), ("not", ("log", "&&", a, b))):
            progs.append(p + [("if", c, [wr("RdV", L("1"))], [wr("RdV", L("2"))])])
        # constant conditions, both live positions, value used at 64 bit
        for cc in (L("1"), L("0"), ("cmp", "!=", L("16"), L("0")), ("cmp", "==", L("16"), L("0"))):
            progs.append(p + [wr("RddV", ("tern", cc, a, b))])
            progs.append(p + [wr("RddV", ("bin", "+", ("tern", cc, a, b), L("0")))])
            progs.append(p + [wr("RddV", ("shift", ">>", ("tern", cc, a, b), L("1")))])
            progs.append(p + [wr("RdV", ("cmp", "<", ("tern", cc, a, b), L("0")))])
    for txt in ("0", "5", "0LL", "0ULL", "5U", "0x80000000", "0xffffffffU", "0xffffffffffffffffULL"):
        for cc in (L("1"), L("0"), ("cmp", "!=", L("8"), L("0"))):
            progs.append(p1 + [wr("RddV", ("tern", cc, a, L(txt)))])
            progs.append(p1 + [wr("RddV", ("tern", cc, L(txt), a))])
            progs.append(p1 + [wr("RddV", ("shift", ">>", ("tern", cc, a, L(txt)), L("1")))])
            progs.append(p1 + [wr("RddV", ("shift", ">>", ("tern", cc, L(txt), a), L("1")))])
# constant ?: with compound arms (a bare variable as dead arm is outside HSameProg) of every pair of types
for t1 in TN:
    for t2 in TN:
        a = var("a", t1); b = var("b", t2)
        p = pre2(t1, t2)
        for A, B in ((("bin", "&", a, a), ("bin", "&", b, b)), (("cast", t1, T[t1], ("bin", "+", a, L("0"))), ("cast", t2, T[t2], ("bin", "+", b, L("0")))),
                     (("un", "~", a), ("un", "-", b))):
            for cc in (L("1"), L("0"), ("cmp", "!=", L("16"), L("0")), ("cmp", "==", L("16"), L("0"))):
                progs.append(p + [wr("RddV", ("tern", cc, A, B))])
                progs.append(p + [wr("RddV", ("shift", ">>", ("tern", cc, A, B), L("3")))])
                progs.append(p + [wr("RdV", ("cmp", "<", ("tern", cc, A, B), L("0")))])
                progs.append(p + [wr("RddV", ("bin", "*", ("tern", cc, A, B), L("3")))])
# assignment targets that are explicit / alias registers (assigned, so the code would READ them through the .new value)
def xreg(n, t): return ("reg", n, t)
P0 = xreg("P0", (True, 8)); P1 = xreg("P1", (True, 8)); SA1 = xreg("HEX_REG_ALIAS_SA1", (False, 32)); LC1 = xreg("HEX_REG_ALIAS_LC1", (False, 32))
R31 = xreg("R31", (True, 32))
for t1 in TN:
    a = var("a", t1)
    p1 = [decl(t1, "a", ("cast", t1, T[t1], reg("RssV")))]
    for X in (P0, SA1, R31):
        progs.append(p1 + [("assign", X, "=", a)])
        progs.append(p1 + [("assign", X, "=", ("tern", ("cmp", "==", a, reg("RtV")), L("0xff"), L("0x00")))])
        progs.append(p1 + [("assign", X, "=", a), wr("RdV", X)])                 # read after the assignment
        progs.append(p1 + [wr("RdV", X), ("assign", X, "=", a)])                 # read before the assignment
        progs.append(p1 + [("assign", X, "=", a), ("assign", X, "=", ("bin", "+", X, L("1")))])   # target read on the right
        for op in ("|=", "+=", "&="):
            progs.append(p1 + [("assign", X, op, a)])                            # compound: the target IS read
        progs.append(p1 + [("if", ("not", ("bin", "&", reg("PvV"), L("1"))), [("assign", X, "=", a)], [("assign", X, "=", L("0"))])])
    progs.append(p1 + [("assign", P0, "=", a), ("assign", P1, "=", ("un", "~", a))])
    progs.append(p1 + [("assign", SA1, "=", ("bin", "+", reg("HEX_REG_ALIAS_PC") if False else a, L("4"))), ("assign", LC1, "=", a)])
# low-bits macro calls: extract64/sextract64(x, start, len) with constant start/len on arguments of every type
# (certifiedSemX: the first argument may be converted differently above its own width when start+len <= width)
for t1 in TN:
    a = var("a", t1)
    p1 = [decl(t1, "a", ("cast", t1, T[t1], reg("RssV")))]
    for (st_, ln_) in ((0, 0), (0, 1), (0, 7), (0, 8), (0, 16), (0, 17), (0, 32), (0, 33), (0, 64), (8, 8), (16, 16), (24, 16), (31, 1), (32, 1), (7, 1), (8, 1), (15, 1), (16, 1)):
        for mname, ret in (("sextract64", (True, 64)), ("extract64", (False, 64))):
            call = ("macro", mname, [a, L(str(st_)), L(str(ln_))], ret)
            progs.append(p1 + [wr("RddV", call)])
            if ln_:
                progs.append(p1 + [wr("RddV", ("tern", ("cmp", "!=", L(str(ln_)), L("0")), call, L("0LL")))])
            call2 = ("macro", mname, [("bin", "+", a, reg("RtV")), L(str(st_)), L(str(ln_))], ret)
            progs.append(p1 + [wr("RdV", call2)])
    # non-constant length / start: never through the low-bits clause
    progs.append(p1 + [wr("RddV", ("macro", "sextract64", [a, L("0"), reg("RtV")], (True, 64)))])
    progs.append(p1 + [wr("RddV", ("macro", "extract64", [a, reg("RtV"), L("8")], (False, 64)))])
print("programs", len(progs))
items = [{"ast": a_, "src": gen.prog_src(a_)} for a_ in progs]
parsed = rc.parse_programs([it["src"] for it in items])
c = rc.compiler("READ_STATEMENTS")
for it, pr in zip(items, parsed):
    if pr[0] != "ok":
        it["status"] = "parse-reject"; continue
    r = rc.transform_tree(c, pr[1])
    if r[0] != "ok": it.update(status="transform-reject", exc=r[1])
    else: it.update(status="ok", text={"READ_STATEMENTS": r[1]})
rc.close_pool()
print(collections.Counter(it.get("status") for it in items))
reqs = semcheck.sem_requests(items, 48, 3)
reps = Driver().run([r for _, r in reqs])
cnt = collections.Counter(); bad = []
for (i, _), rp_ in zip(reqs, reps):
    d = semcheck.parse_sem(rp_)
    if "error" in d or not d.get("parsed"): cnt["unparsed"] += 1; continue
    cert = d.get("certified-sem") == "1" or d.get("certified-semx") == "1"
    cnt[("tree-equal" if d["tree-equal"] else "tree-diff", "cert" if cert else "nocert", "fail" if d.get("fail") else "ok")] += 1
    if d["tree-equal"] and cert and d.get("fail"): bad.append((items[i]["src"], d["fail"]))
    if d.get("certified-semx") == "1" and d.get("certified-sem") != "1": cnt["certified only by certifiedSemX (MsLow)"] += 1
for k, v in sorted(cnt.items(), key=str): print(k, v)
print("CERTIFIED WITH FAILING STATE:", len(bad))
for b_ in bad[:10]: print(b_)
sys.exit(1 if bad else 0)
