#!/bin/sh
# Offline setup: regenerate the translated Lean files from /repo, build library, theorems and driver.
set -e
cd "$(dirname "$0")"
/venv/bin/python harness/translate.py >/dev/null
cd lean && lake build
